package main

import (
	"flag"
	"fmt"
	"os"
	"sort"
	"strings"
	"time"

	"verif/internal/govc"
)

func main() {
	if len(os.Args) < 2 {
		fmt.Fprintln(os.Stderr, "usage: govc <fn|check|list|selftest> ...")
		os.Exit(2)
	}
	switch os.Args[1] {
	case "fn":
		cmdFn(os.Args[2:])
	case "list":
		cmdList(os.Args[2:])
	case "check":
		os.Exit(govc.CmdCheck(os.Args[2:]))
	default:
		if h, ok := extra[os.Args[1]]; ok {
			h(os.Args[2:])
			return
		}
		fmt.Fprintln(os.Stderr, "unknown command", os.Args[1])
		os.Exit(2)
	}
}

func load(repo, verif string) *govc.Engine {
	e, err := govc.Load(repo, verif)
	if err != nil {
		fmt.Fprintln(os.Stderr, "govc: load failed:", err)
		os.Exit(2)
	}
	return e
}

func cmdList(args []string) {
	fs := flag.NewFlagSet("list", flag.ExitOnError)
	repo := fs.String("repo", "/repo", "")
	verif := fs.String("verif", "/verif", "")
	fs.Parse(args)
	e := load(*repo, *verif)
	var keys []string
	for k := range e.Contracts.ByKey {
		keys = append(keys, k)
	}
	sort.Strings(keys)
	for _, k := range keys {
		c := e.Contracts.ByKey[k]
		fmt.Printf("%-8s %-90s props=%v\n", c.Kind, k, c.Props)
	}
}

func cmdFn(args []string) {
	fs := flag.NewFlagSet("fn", flag.ExitOnError)
	repo := fs.String("repo", "/repo", "")
	verif := fs.String("verif", "/verif", "")
	timeout := fs.Duration("timeout", 10*time.Second, "")
	dump := fs.Bool("dump", false, "print SMT of failing obligations")
	verbose := fs.Bool("v", false, "")
	fs.Parse(args)
	e := load(*repo, *verif)
	e.Verbose = *verbose
	e.LeanQuant = os.Getenv("GOVC_LEANQ") != ""
	var keys []string
	for k, c := range e.Contracts.ByKey {
		if c.Kind != "func" && c.Kind != "lemma" {
			continue
		}
		for _, pat := range fs.Args() {
			if strings.Contains(k, pat) {
				keys = append(keys, k)
				break
			}
		}
	}
	sort.Strings(keys)
	bad := 0
	for _, k := range keys {
		t0 := time.Now()
		r := e.VerifyFunction(k)
		gen := time.Since(t0)
		if r.Err != "" {
			fmt.Printf("== %s: ERROR %s\n", k, r.Err)
			bad++
			continue
		}
		t1 := time.Now()
		r.Discharge(govc.SolveOptions{Timeout: *timeout, Dir: "/tmp/govc-smt"})
		r = e.Rebind(r, govc.SolveOptions{Timeout: *timeout, Dir: "/tmp/govc-smt"})
		fmt.Printf("== %s: %d obligations (gen %.2fs, solve %.2fs)\n", k, len(r.Obls), gen.Seconds(), time.Since(t1).Seconds())
		for _, n := range r.Unsup {
			fmt.Println("   UNSUPPORTED:", n)
		}
		for _, n := range r.Notes {
			fmt.Println("   note:", n)
		}
		for _, o := range r.Obls {
			mark := "ok  "
			if o.Result != "discharged" {
				mark = "FAIL"
				bad++
			}
			if *verbose || o.Result != "discharged" {
				fmt.Printf("   %s %-60s %-10s %6.2fs %-10s %s [%s] %s\n", mark, o.Name, o.Result, o.Secs, o.Solver, o.Pos, strings.Join(o.Props, ","), o.Text)
				if o.Result != "discharged" {
					fmt.Printf("        %s\n", o.Detail)
				}
			}
		}
		_ = dump
	}
	if bad > 0 {
		os.Exit(1)
	}
}

func init() { extra["ext"] = cmdExt }

var extra = map[string]func([]string){}

// cmdExt lists the dependency functions called (transitively through repository functions) from the
// functions whose key contains one of the patterns, and whether a spec exists.
func cmdExt(args []string) {
	e := load("/repo", "/verif")
	for _, l := range e.ExternalCallees(args) {
		fmt.Println(l)
	}
}
