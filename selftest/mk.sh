#!/bin/bash
# usage: mk.sh <mutants|refactors> <name> "<props>" "<note>" <file> <python-regex> <replacement>
set -e
kind=$1; name=$2; props=$3; note=$4; file=$5; pat=$6; rep=$7
tmp=$(mktemp -d)
mkdir -p $tmp/a/$(dirname $file) $tmp/b/$(dirname $file)
cp /repo/$file $tmp/a/$file
python3 - "$tmp/a/$file" "$tmp/b/$file" "$pat" "$rep" <<'PY'
import re,sys
s=open(sys.argv[1]).read()
t,n=re.subn(sys.argv[3],sys.argv[4],s,count=1,flags=re.S)
if n!=1: sys.exit("pattern not found")
open(sys.argv[2],'w').write(t)
PY
out=/verif/selftest/$kind/$name.patch
{ echo "# property: $props"; echo "# note: $note"; (cd $tmp && diff -u a/$file b/$file || true); } > $out
rm -rf $tmp
echo wrote $out
