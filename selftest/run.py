#!/usr/bin/env python3
"""Self-test corpus for govc: every patch in mutants/ must make the named property's check
report a VIOLATION (exit 1); every patch in refactors/ must leave it silent (exit 0).
Patches are applied to a scratch copy of the repository (never to /repo)."""
import json, os, shutil, subprocess, sys, tempfile, concurrent.futures

HERE = os.path.dirname(os.path.abspath(__file__))
VERIF = os.path.dirname(HERE)
REPO = os.environ.get("GOVC_REPO", "/repo")
ENV = dict(os.environ, GOFLAGS="-mod=mod", GOPROXY="off", GOSUMDB="off", GOTOOLCHAIN="local")

def meta(path):
    # first lines of a patch: "# property: C19" / "# expect: VIOLATION|PASS" / "# note: ..."
    m = {}
    for l in open(path):
        if not l.startswith("#"):
            break
        if ":" in l:
            k, v = l[1:].split(":", 1)
            m[k.strip()] = v.strip()
    return m

def run_one(path, expect_violation):
    m = meta(path)
    props = m.get("property", "").split()
    mj = os.path.join(os.path.dirname(path), "meta.json")
    if os.path.exists(mj):
        props = json.load(open(mj))["property"].split()
        if os.path.exists(os.path.join(os.path.dirname(path), "check_with.txt")):
            props = open(os.path.join(os.path.dirname(path), "check_with.txt")).read().split()
    try:
        claimed = {c["property_id"] for c in json.load(open(os.path.join(VERIF, "MANIFEST.json")))["checks"]}
    except Exception:
        claimed = None
    if claimed is not None and props and not any(p in claimed for p in props):
        return (path, "SKIP", "property %s is not claimed (not_applicable in MANIFEST.json): no check to run" % " ".join(props))
    tmp = tempfile.mkdtemp(prefix="govc-selftest-")
    try:
        dst = os.path.join(tmp, "repo")
        shutil.copytree(REPO, dst, ignore=shutil.ignore_patterns(".git"))
        r = subprocess.run(["patch", "-p1", "-s", "-d", dst, "-i", path], capture_output=True, text=True)
        if r.returncode != 0:
            return (path, "SKIP", "patch does not apply: " + r.stdout.strip()[:200])
        b = subprocess.run(["go", "build", "./..."], cwd=dst, env=ENV, capture_output=True, text=True)
        if b.returncode != 0:
            return (path, "SKIP", "mutant does not compile: " + b.stderr.strip()[:300])
        res = []
        ok = True
        for p in props:
            c = subprocess.run([os.path.join(VERIF, "bin/govc"), "check", p, "--repo", dst, "--verif", VERIF, "--no-evidence", "-q"],
                               cwd=VERIF, env=ENV, capture_output=True, text=True)
            viol = [l for l in c.stdout.splitlines() if l.startswith("VIOLATION")]
            failed = [l.strip() for l in c.stdout.splitlines() if l.strip().startswith("failed obligation")]
            if expect_violation:
                good = c.returncode == 1 and len(viol) > 0
            else:
                good = c.returncode == 0 and len(viol) == 0
            ok = ok and good
            res.append("%s: exit=%d %s" % (p, c.returncode, "; ".join(failed)[:300] if failed else (c.stdout.strip().splitlines()[-1:] or [""])[0][:200]))
        return (path, "OK" if ok else "FAIL", " | ".join(res))
    finally:
        shutil.rmtree(tmp, ignore_errors=True)

def main():
    sel = sys.argv[1:]
    jobs = []
    for kind, expect in (("mutants", True), ("refactors", False)):
        d = os.path.join(HERE, kind)
        for f in sorted(os.listdir(d)):
            if not f.endswith(".patch"):
                continue
            if sel and not any(s in f for s in sel):
                continue
            jobs.append((os.path.join(d, f), expect))
    sd = os.path.join(VERIF, "seeded")
    if os.path.isdir(sd):
        for name in sorted(os.listdir(sd)):
            pth = os.path.join(sd, name, "patch.diff")
            if os.path.exists(pth) and (not sel or any(s in "seeded/" + name for s in sel)):
                jobs.append((pth, True))
    bad = 0
    with concurrent.futures.ThreadPoolExecutor(max_workers=3) as ex:
        for path, status, info in ex.map(lambda j: run_one(*j), jobs):
            print("%-5s %-60s %s" % (status, os.path.relpath(path, VERIF), info))
            if status == "FAIL":
                bad += 1
    print("selftest: %d cases, %d failed" % (len(jobs), bad))
    sys.exit(1 if bad else 0)

if __name__ == "__main__":
    main()
