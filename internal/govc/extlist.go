package govc

import (
	"fmt"
	"sort"
	"strings"

	"golang.org/x/tools/go/ssa"
)

// ExternalCallees lists dependency callees reachable from the repository functions matching the patterns.
func (e *Engine) ExternalCallees(pats []string) []string {
	seen := map[*ssa.Function]bool{}
	ext := map[string]map[string]bool{}
	var visit func(fn *ssa.Function, root string)
	visit = func(fn *ssa.Function, root string) {
		if seen[fn] {
			return
		}
		seen[fn] = true
		for _, b := range fn.Blocks {
			for _, ins := range b.Instrs {
				if mc, ok := ins.(*ssa.MakeClosure); ok {
					visit(mc.Fn.(*ssa.Function), root)
				}
				call, ok := ins.(ssa.CallInstruction)
				if !ok {
					continue
				}
				cc := call.Common()
				var key string
				if cc.IsInvoke() {
					key = cc.Method.FullName()
					if strings.Contains(key, ModulePath) {
						continue
					}
				} else if callee := cc.StaticCallee(); callee != nil {
					if IsRepoFn(callee) {
						if !strings.HasPrefix(FnKey(callee), VspecPath) {
							visit(callee, root)
						}
						continue
					}
					key = FnKey(callee)
				} else {
					continue
				}
				if ext[key] == nil {
					ext[key] = map[string]bool{}
				}
				ext[key][root] = true
			}
		}
	}
	for k, fn := range e.FnByKey {
		if !IsRepoFn(fn) || strings.Contains(k, "_test") || strings.HasPrefix(k, VspecPath) || strings.Contains(k, "Vc_") {
			continue
		}
		for _, p := range pats {
			if strings.Contains(k, p) {
				visit(fn, shortKey(k))
			}
		}
	}
	var out []string
	for k, roots := range ext {
		st := "MISSING"
		if e.Contracts.ByKey[k] != nil {
			st = "spec   "
		} else if _, ok := extIntrinsics[k]; ok {
			st = "builtin"
		} else {
			for _, pre := range e.Contracts.ExtInline {
				if strings.HasPrefix(k, pre) {
					st = "inline "
				}
			}
		}
		var rs []string
		for r := range roots {
			rs = append(rs, r)
		}
		sort.Strings(rs)
		if len(rs) > 3 {
			rs = append(rs[:3], "...")
		}
		out = append(out, fmt.Sprintf("%s %-80s <- %s", st, k, strings.Join(rs, ", ")))
	}
	sort.Strings(out)
	return out
}
