package govc

// Replay: a model of a failed obligation is turned into concrete Go values and
// a generated in-package test runs the REAL function (or lemma) on them.

import (
	"encoding/json"
	"fmt"
	"go/types"
	"math/big"
	"os"
	"os/exec"
	"path/filepath"
	"sort"
	"strconv"
	"strings"
	"time"
)

type replayGen struct {
	c       *FnCtx
	st0     *State
	queries []*Term
	qidx    map[int]int
	pkg     *types.Package
	imports map[string]string // path -> name
	fail    string
	// emission
	vals  []*sexp
	decls []string
	regs  map[string]bool
	objs  map[string]bool
	loops []string // candidate enumerations: "for _, name := range []T{...} {"
	wf    []*Term // well-formedness of every reconstructed slice / string (always asserted)
	small []*Term // size caps (first attempt only)
}

func (g *replayGen) q(t *Term) *Term {
	if _, ok := g.qidx[t.id]; !ok {
		g.qidx[t.id] = len(g.queries)
		g.queries = append(g.queries, t)
	}
	return t
}

func (g *replayGen) val(t *Term) *sexp {
	i, ok := g.qidx[t.id]
	if !ok || i >= len(g.vals) {
		return nil
	}
	return g.vals[i]
}

func (g *replayGen) typeStr(t types.Type) string {
	return types.TypeString(t, func(p *types.Package) string {
		if p == g.pkg {
			return ""
		}
		g.imports[p.Path()] = p.Name()
		return p.Name()
	})
}

type valFn func() (string, bool)

// gen registers the queries needed to reconstruct a value of type t denoted by term v and returns the emitter.
func (g *replayGen) gen(t types.Type, v *Term, depth int) valFn {
	c := g.c
	f := c.f
	bad := func(why string) valFn {
		return func() (string, bool) {
			if g.fail == "" {
				g.fail = why
			}
			return "", false
		}
	}
	if v == nil {
		return bad("static-only parameter of type " + t.String())
	}
	switch u := t.Underlying().(type) {
	case *types.Basic:
		switch {
		case u.Info()&types.IsBoolean != 0:
			g.q(v)
			return func() (string, bool) {
				s := g.val(v)
				if s == nil {
					return "", false
				}
				return s.atom, s.atom == "true" || s.atom == "false"
			}
		case u.Info()&types.IsInteger != 0:
			g.q(v)
			return func() (string, bool) {
				s := g.val(v)
				if s == nil {
					return "", false
				}
				n, ok := s.asInt()
				if !ok {
					return "", false
				}
				return fmt.Sprintf("%s(%s)", g.typeStr(t), n.String()), true
			}
		case u.Info()&types.IsString != 0:
			g.q(v)
			return func() (string, bool) {
				bs, ok := g.bytesOf(g.val(v))
				if !ok {
					return "", false
				}
				return fmt.Sprintf("%s(%s)", g.typeStr(t), strconv.Quote(string(bs))), true
			}
		}
	case *types.Slice:
		if !isByte(u.Elem()) {
			// not reconstructed: the model is constrained to the nil slice
			z := f.Int(0)
			g.wf = append(g.wf, f.And(f.Eq(f.SlRef(v), z), f.Eq(f.SlOff(v), z), f.Eq(f.SlLen(v), z), f.Eq(f.SlCap(v), z)))
			return func() (string, bool) { return fmt.Sprintf("%s(nil)", g.typeStr(t)), true }
		}
		ref, off, ln, cp := g.q(f.SlRef(v)), g.q(f.SlOff(v)), g.q(f.SlLen(v)), g.q(f.SlCap(v))
		reg := g.q(c.regionOf(g.st0, SB, f.SlRef(v)))
		g.wf = append(g.wf, f.And(f.Le(f.Int(0), f.SlRef(v)), f.Le(f.Int(0), f.SlOff(v)), f.Le(f.Int(0), f.SlLen(v)), f.Le(f.SlLen(v), f.SlCap(v)),
			f.Le(f.Add(f.SlOff(v), f.SlCap(v)), f.SLen(reg)), f.Implies(f.Eq(f.SlRef(v), f.Int(0)), f.Eq(f.SlCap(v), f.Int(0)))))
		g.small = append(g.small, f.And(f.Le(f.SlCap(v), f.Int(600)), f.Le(f.SlOff(v), f.Int(8)), f.Le(f.SLen(reg), f.Int(640))))
		return func() (string, bool) {
			r, ok1 := g.val(ref).asInt()
			o, ok2 := g.val(off).asInt()
			l, ok3 := g.val(ln).asInt()
			cc, ok4 := g.val(cp).asInt()
			if !ok1 || !ok2 || !ok3 || !ok4 {
				return "", false
			}
			if r.Sign() == 0 {
				return fmt.Sprintf("%s(nil)", g.typeStr(t)), true
			}
			if cc.Cmp(bi(1<<22)) > 0 || o.Cmp(bi(1<<22)) > 0 {
				g.fail = fmt.Sprintf("model needs a %s-byte buffer", cc.String())
				return "", false
			}
			bs, ok := g.bytesOf(g.val(reg))
			if !ok {
				return "", false
			}
			need := int(o.Int64() + cc.Int64())
			for len(bs) < need {
				bs = append(bs, 0)
			}
			if len(bs) > need && !g.regs["reg"+r.String()] {
				bs = bs[:need]
			}
			name := "reg" + r.String()
			if !g.regs[name] {
				g.regs[name] = true
				g.decls = append(g.decls, fmt.Sprintf("%s := %s", name, byteLit(bs)))
				g.decls = append(g.decls, fmt.Sprintf("%s_0 := append([]byte(nil), %s...)", name, name))
				g.decls = append(g.decls, fmt.Sprintf("_ = %s_0", name))
			}
			return fmt.Sprintf("%s(%s[%d:%d:%d])", g.typeStr(t), name, o.Int64(), o.Int64()+l.Int64(), need), true
		}
	case *types.Array:
		if !isByte(u.Elem()) {
			return bad("array of " + u.Elem().String())
		}
		g.q(v)
		return func() (string, bool) {
			bs, ok := g.bytesOf(g.val(v))
			if !ok {
				return "", false
			}
			for int64(len(bs)) < u.Len() {
				bs = append(bs, 0)
			}
			return fmt.Sprintf("%s%s", g.typeStr(t), byteLit(bs[:u.Len()])[len("[]byte"):]), true
		}
	case *types.Struct:
		si := c.structInfoOf(t)
		var subs []valFn
		var names []string
		for i := range si.fields {
			sf := si.fields[i]
			fl := u.Field(i)
			if !fl.Exported() && fl.Pkg() != g.pkg {
				continue
			}
			if _, ok := c.sortOf(sf.typ); !ok {
				continue
			}
			subs = append(subs, g.gen(sf.typ, c.structSel(si, i, v), depth+1))
			names = append(names, sf.name)
		}
		return func() (string, bool) {
			var parts []string
			for i, s := range subs {
				e, ok := s()
				if !ok {
					return "", false
				}
				parts = append(parts, names[i]+": "+e)
			}
			return fmt.Sprintf("%s{%s}", g.typeStr(t), strings.Join(parts, ", ")), true
		}
	case *types.Pointer:
		st, ok := u.Elem().Underlying().(*types.Struct)
		if !ok || depth > 3 {
			return bad("pointer to " + u.Elem().String())
		}
		named, _ := u.Elem().(*types.Named)
		if named == nil || named.Obj().Pkg() == nil || !strings.HasPrefix(named.Obj().Pkg().Path(), ModulePath) {
			return bad("opaque dependency object " + u.Elem().String())
		}
		si := c.structInfoOf(u.Elem())
		g.q(v)
		whole := c.loadStruct(g.st0, si, v)
		sub := g.gen(u.Elem(), whole, depth+1)
		_ = st
		return func() (string, bool) {
			r, ok := g.val(v).asInt()
			if !ok {
				return "", false
			}
			if r.Sign() == 0 {
				return "nil", true
			}
			name := "obj" + r.String()
			if !g.objs[name] {
				e, ok := sub()
				if !ok {
					return "", false
				}
				g.objs[name] = true
				g.decls = append(g.decls, fmt.Sprintf("%s := &%s", name, e))
			}
			return name, true
		}
	}
	// interface parameters with a small set of standard implementations: every candidate is tried
	if cands, ok := replayCandidates[t.String()]; ok {
		name := fmt.Sprintf("cand%d", len(g.loops))
		for path, nm := range cands.imports {
			g.imports[path] = nm
		}
		g.loops = append(g.loops, fmt.Sprintf("for _, %s := range []%s{%s} {", name, cands.typ, strings.Join(cands.exprs, ", ")))
		return func() (string, bool) { return name, true }
	}
	return bad("parameter type " + t.String() + " is not reconstructed from models")
}

type candSet struct {
	typ     string
	exprs   []string
	imports map[string]string
}

// replayCandidates: values tried for interface-typed parameters that a model cannot describe.
var replayCandidates = map[string]candSet{
	"crypto/elliptic.Curve": {typ: "elliptic.Curve", exprs: []string{"elliptic.P224()", "elliptic.P256()", "elliptic.P384()", "elliptic.P521()"}, imports: map[string]string{"crypto/elliptic": "elliptic"}},
	"io.Reader":             {typ: "io.Reader", exprs: []string{"rand.Reader"}, imports: map[string]string{"io": "io", "crypto/rand": "rand"}},
}

func (g *replayGen) bytesOf(s *sexp) ([]byte, bool) {
	if s == nil {
		return nil, false
	}
	es, ok := s.asSeq()
	if !ok {
		return nil, false
	}
	out := make([]byte, len(es))
	for i, e := range es {
		n, ok := e.asInt()
		if !ok {
			return nil, false
		}
		out[i] = byte(new(big.Int).Mod(n, bi(256)).Int64())
	}
	return out, true
}

func byteLit(bs []byte) string {
	var sb strings.Builder
	sb.WriteString("[]byte{")
	for i, b := range bs {
		if i > 0 {
			sb.WriteString(", ")
		}
		fmt.Fprintf(&sb, "%d", b)
	}
	sb.WriteString("}")
	return sb.String()
}

// extractOld replaces old(e) occurrences in a clause by fresh names and returns the pre-state bindings.
func extractOld(text string) (string, []string) {
	var binds []string
	var sb strings.Builder
	i := 0
	for i < len(text) {
		if strings.HasPrefix(text[i:], "old(") && (i == 0 || !isIdentChar(text[i-1])) {
			j := matchClose(text, i+3)
			if j > 0 {
				name := fmt.Sprintf("old_%d", len(binds))
				binds = append(binds, fmt.Sprintf("%s := %s", name, rewriteExpr(text[i+4:j])))
				sb.WriteString(name)
				i = j + 1
				continue
			}
		}
		sb.WriteByte(text[i])
		i++
	}
	return sb.String(), binds
}

func isIdentChar(c byte) bool {
	return c == '_' || c == '.' || (c >= 'a' && c <= 'z') || (c >= 'A' && c <= 'Z') || (c >= '0' && c <= '9')
}

type ReplayResult struct {
	Attempted bool   `json:"attempted"`
	Confirmed bool   `json:"confirmed"`
	Reason    string `json:"reason,omitempty"`
	Inputs    []string `json:"inputs,omitempty"`
	TestSrc   string `json:"test_source,omitempty"`
	Output    string `json:"output,omitempty"`
	Solver    string `json:"model_from,omitempty"`
}

// Refute searches a counterexample for obligation i and replays it on the real code.
func (r *FnResult) Refute(e *Engine, i int, dir string) *ReplayResult {
	res := &ReplayResult{}
	c := r.ctx
	o := r.Obls[i]
	if c == nil || r.fn == nil {
		res.Reason = "no context"
		return res
	}
	ct := r.Contract
	mode := ""
	switch {
	case o.Kind == "assert" && ct.Kind == "lemma":
		mode = "lemma"
	case o.Kind == "ensures" && o.Clause != nil:
		mode = "ensures"
	case o.Kind == "frame" && ct.Assigns != nil && strings.TrimSpace(ct.Assigns.Text) == "none":
		mode = "frame"
	case safetyKinds[o.Kind] && o.Kind != "variant":
		mode = "panic"
	default:
		res.Reason = "obligations of kind " + o.Kind + " have no executable oracle"
		return res
	}
	g := &replayGen{c: c, st0: &State{R: c.f.True(), heap: map[string]*Term{}, alpha: c.alpha0}, qidx: map[int]int{},
		pkg: r.fn.Pkg.Pkg, imports: map[string]string{}, regs: map[string]bool{}, objs: map[string]bool{}}
	var emit []valFn
	for k, p := range r.fn.Params {
		t, _ := r.args[k].(*Term)
		emit = append(emit, g.gen(p.Type(), t, 0))
	}
	for k, p := range r.fn.Params {
		if t, ok := r.args[k].(*Term); ok {
			if u, ok := p.Type().Underlying().(*types.Basic); ok && u.Info()&types.IsString != 0 {
				g.small = append(g.small, c.f.Le(c.f.SLen(t), c.f.Int(600)))
			}
		}
	}
	var vals []*sexp
	verdict := ""
	for attempt := 0; attempt < 3; attempt++ {
		extra := append(append([]*Term{}, g.wf...), g.small...)
		if attempt == 1 {
			extra = append([]*Term{}, g.wf...)
		}
		if o.Aux != nil {
			// look for an input that requests an allocation the replay can observe (8 GiB and more)
			extra = append(extra, c.f.Le(c.f.IntB(pow2(33)), o.Aux))
		}
		// third attempt: without the quantified axioms (the solvers cannot build models for them)
		script := r.Script.NativeTextOpt(i, extra, g.queries, attempt == 2)
		var solver string
		verdict, vals, solver = modelQuery(script, dir, sanitize(o.Name)+fmt.Sprintf("_%d", attempt), 10*time.Second)
		res.Solver = solver
		if verdict == "sat" && len(vals) == len(g.queries) {
			break
		}
	}
	if verdict != "sat" || len(vals) != len(g.queries) {
		res.Reason = "no model: native-sequence encoding answered " + verdict
		return res
	}
	g.vals = vals
	var argExprs []string
	for k, em := range emit {
		ex, ok := em()
		if !ok {
			res.Reason = "model could not be turned into Go values: " + g.fail
			return res
		}
		argExprs = append(argExprs, ex)
		res.Inputs = append(res.Inputs, fmt.Sprintf("%s = %s", r.fn.Params[k].Name(), ex))
	}
	// test source
	var body strings.Builder
	for _, d := range g.decls {
		fmt.Fprintf(&body, "\t%s\n", d)
	}
	for _, l := range g.loops {
		fmt.Fprintf(&body, "\t%s\n", l)
	}
	var names []string
	for k, p := range ct.Params {
		fmt.Fprintf(&body, "\t%s := %s\n\t_ = %s\n", p.Name, argExprs[k], p.Name)
		names = append(names, p.Name)
	}
	call := ""
	fname := r.fn.Name()
	if ct.HasRecv {
		call = fmt.Sprintf("%s.%s(%s)", names[0], fname, strings.Join(names[1:], ", "))
	} else {
		call = fmt.Sprintf("%s(%s)", fname, strings.Join(names, ", "))
	}
	var resNames []string
	for _, rp := range ct.Results {
		resNames = append(resNames, rp.Name)
	}
	assign := ""
	if len(resNames) > 0 {
		assign = strings.Join(resNames, ", ") + " := "
	}
	switch mode {
	case "lemma", "panic":
		fmt.Fprintf(&body, "\t%s%s\n", assign, call)
		for _, n := range resNames {
			fmt.Fprintf(&body, "\t_ = %s\n", n)
		}
		body.WriteString("\tfmt.Println(\"GOVC-REPLAY: RETURNED\")\n")
	case "frame":
		fmt.Fprintf(&body, "\t%s%s\n", assign, call)
		for _, n := range resNames {
			fmt.Fprintf(&body, "\t_ = %s\n", n)
		}
		var regs []string
		for rn := range g.regs {
			regs = append(regs, rn)
		}
		sort.Strings(regs)
		for _, rn := range regs {
			fmt.Fprintf(&body, "\tif string(%s) != string(%s_0) { fmt.Printf(\"GOVC-REPLAY: MEMORY-CHANGED %s before=%%x after=%%x\\n\", %s_0, %s) }\n", rn, rn, rn, rn, rn)
		}
		body.WriteString("\tfmt.Println(\"GOVC-REPLAY: RETURNED\")\n")
	case "ensures":
		for _, l := range ct.Lets {
			if k := strings.Index(l, "="); k > 0 {
				ns := strings.Split(l[:k], ",")
				for i := range ns {
					ns[i] = strings.TrimSpace(ns[i])
				}
				fmt.Fprintf(&body, "\t%s := %s\n", strings.Join(ns, ", "), rewriteExpr(strings.TrimSpace(l[k+1:])))
				for _, n := range ns {
					fmt.Fprintf(&body, "\t_ = %s\n", n)
				}
			}
		}
		text, binds := extractOld(o.Clause.Text)
		for _, b := range binds {
			fmt.Fprintf(&body, "\t%s\n", b)
		}
		fmt.Fprintf(&body, "\t%s%s\n", assign, call)
		for _, n := range resNames {
			fmt.Fprintf(&body, "\t_ = %s\n", n)
		}
		fmt.Fprintf(&body, "\tif !(%s) {\n\t\tfmt.Println(\"GOVC-REPLAY: CLAUSE-FALSE\")\n\t} else {\n\t\tfmt.Println(\"GOVC-REPLAY: CLAUSE-HOLDS\")\n\t}\n", rewriteExpr(text))
	}
	for range g.loops {
		body.WriteString("\t}\n")
	}
	var src strings.Builder
	fmt.Fprintf(&src, "//go:build verif\n\npackage %s\n\nimport (\n\t\"fmt\"\n\t\"testing\"\n", ct.PkgName)
	if ct.PkgName != "vspec" {
		fmt.Fprintf(&src, "\t. %q\n", VspecPath)
	}
	used := usedSelectors(body.String())
	seen := map[string]bool{"fmt": true, "testing": true}
	for path, name := range g.imports {
		if !seen[name] && used[name] {
			seen[name] = true
			fmt.Fprintf(&src, "\t%s %q\n", name, path)
		}
	}
	for _, is := range ct.Imports {
		path, _ := strconv.Unquote(is.Path.Value)
		name := filepath.Base(path)
		if is.Name != nil {
			name = is.Name.Name
		}
		if name == "." || name == "_" || seen[name] || !used[name] {
			continue
		}
		seen[name] = true
		fmt.Fprintf(&src, "\t%s %q\n", name, path)
	}
	src.WriteString(")\n\nvar _ = Vassert\n\nfunc TestGovcReplay(t *testing.T) {\n\tdefer func() {\n\t\tif r := recover(); r != nil {\n\t\t\tif _, ok := r.(AssumeFailed); ok {\n\t\t\t\tfmt.Println(\"GOVC-REPLAY: ASSUME-FAILED\")\n\t\t\t\treturn\n\t\t\t}\n\t\t\tfmt.Printf(\"GOVC-REPLAY: PANIC %v\\n\", r)\n\t\t}\n\t}()\n")
	src.WriteString(body.String())
	src.WriteString("}\n")
	res.TestSrc = src.String()
	res.Attempted = true
	out := runReplay(e.RepoDir, ct.Dir, src.String(), dir)
	res.Output = out
	switch mode {
	case "lemma":
		res.Confirmed = strings.Contains(out, "GOVC-REPLAY: PANIC vspec: Vassert failed")
	case "panic":
		res.Confirmed = strings.Contains(out, "GOVC-REPLAY: PANIC") && !strings.Contains(out, "Vassert failed") || strings.Contains(out, "fatal error: runtime: out of memory") || strings.Contains(out, "cannot allocate memory")
	case "frame":
		res.Confirmed = strings.Contains(out, "GOVC-REPLAY: MEMORY-CHANGED")
	case "ensures":
		res.Confirmed = strings.Contains(out, "GOVC-REPLAY: CLAUSE-FALSE")
	}
	if !res.Confirmed {
		res.Reason = "the model's input did not reproduce the failure on the real code (the counterexample may rely on an abstracted dependency or on aliasing the harness does not rebuild)"
	}
	return res
}

func usedSelectors(src string) map[string]bool {
	used := map[string]bool{}
	for i := 0; i < len(src); i++ {
		if src[i] == '.' && i > 0 {
			j := i
			for j > 0 && isIdentChar(src[j-1]) && src[j-1] != '.' {
				j--
			}
			if j < i {
				used[src[j:i]] = true
			}
		}
	}
	return used
}

// runReplay compiles the generated test into the package (through an overlay, nothing is written into the
// repository) and runs the test binary under a memory limit.
// replaySpecsDir is set by Load: <verif>/specs.
var replaySpecsDir string

func runReplay(repoDir, pkgDir, src, tmp string) string {
	os.MkdirAll(tmp, 0o755)
	work, err := os.MkdirTemp(tmp, "replay-")
	if err != nil {
		return "cannot create work dir: " + err.Error()
	}
	defer os.RemoveAll(work)
	testFile := filepath.Join(work, "replay_test.go")
	os.WriteFile(testFile, []byte(src), 0o644)
	ov := map[string]map[string]string{"Replace": {filepath.Join(pkgDir, "zz_govc_replay_verif_test.go"): testFile}}
	// the assumed dependency contracts of /verif/specs carry the specification functions the tagged
	// contract files refer to: they are overlaid into internal/vspec exactly as the verifier's loader does
	if specs, _ := filepath.Glob(filepath.Join(replaySpecsDir, "*.go")); len(specs) > 0 {
		vdir := filepath.Join(repoDir, "internal", "vspec")
		for _, sp := range specs {
			ov["Replace"][filepath.Join(vdir, "zz_ext_"+strings.TrimSuffix(filepath.Base(sp), ".go")+"_verif.go")] = sp
		}
	}
	ovb, _ := json.Marshal(ov)
	ovFile := filepath.Join(work, "overlay.json")
	os.WriteFile(ovFile, ovb, 0o644)
	bin := filepath.Join(work, "replay.test")
	env := append(os.Environ(), "GOFLAGS=-mod=mod", "GOPROXY=off", "GOSUMDB=off", "GOTOOLCHAIN=local")
	cmd := exec.Command("go", "test", "-c", "-tags", "verif", "-vet=off", "-overlay", ovFile, "-o", bin, ".")
	cmd.Dir = pkgDir
	cmd.Env = env
	if out, err := cmd.CombinedOutput(); err != nil {
		return "replay test does not compile: " + strings.TrimSpace(string(out))
	}
	run := exec.Command("bash", "-c", fmt.Sprintf("ulimit -v 6000000; exec %s -test.run '^TestGovcReplay$' -test.timeout 60s -test.v", bin))
	run.Dir = pkgDir
	run.Env = env
	out, _ := run.CombinedOutput()
	s := string(out)
	if len(s) > 3000 {
		s = s[:3000]
	}
	return s
}
