package govc

// Contract extraction: //@ blocks in build-tagged files become Contract
// values plus synthetic pure Go functions (one per clause) that are added to
// the load through a go/packages overlay. Nothing is written to /repo.

import (
	"fmt"
	"go/ast"
	"go/parser"
	"go/printer"
	"go/token"
	"os"
	"path/filepath"
	"regexp"
	"sort"
	"strconv"
	"strings"
)

type Clause struct {
	Kind   string // requires ensures invariant decreases alloc assigns
	Props  []string
	Text   string
	FnName string
	Pos    string
}

type LoopSpec struct {
	NonTerm bool // `loop k nonterminating`: termination is explicitly not claimed (no variant obligation)
	Ordinal int
	Vars    []Param
	Invs    []*Clause
	Dec     *Clause
}

type Param struct{ Name, Type string }

type Contract struct {
	Key      string
	Kind     string // func ext iface lemma spec
	PkgPath  string
	PkgName  string
	Dir      string
	Params   []Param // receiver first
	Results  []Param
	Props    []string
	Reveal   []string // opaque spec functions whose definition is available in this function's proof
	Safety   []string // properties that own the run-time-safety obligations (default: C03 if listed)
	Requires []*Clause
	Ensures  []*Clause
	Assigns  *Clause // nil: no frame given
	Alloc    *Clause
	Loops    map[int]*LoopSpec
	Lets     []string
	Trusted  string
	Opaque   bool
	Ghost    bool // ghost field accessor
	Rec      bool // recursive spec function (uninterpreted + unfolding axiom)
	Auto     bool // lemma whose statement (requires ==> ensures) is asserted as a global axiom
	Dec      *Clause // function-level variant (recursive lemmas)
	Inline   bool
	Pure     bool // assigns none && no allocation visible
	File     string
	Line     int
	Imports  []*ast.ImportSpec
	id       string
	HasRecv  bool
	NoFrame  bool
}

var keywords = map[string]bool{"func": true, "ext": true, "iface": true, "lemma": true, "spec": true, "props": true,
	"requires": true, "ensures": true, "assigns": true, "alloc": true, "loop": true, "invariant": true,
	"decreases": true, "let": true, "safety": true, "extinline": true, "reveal": true, "trusted": true, "end": true, "opaque": true, "inline": true, "pure": true, "axiom": true}

type rawLine struct {
	kw   string
	arg  string // e.g. [C04] suffix on ensures
	text string
	line int
}

// splitAtLines extracts logical //@ lines (with continuations joined) from a comment group text.
func atLines(lines []string, startLine int) []rawLine {
	var out []rawLine
	for i, l := range lines {
		t := strings.TrimSpace(l)
		var body string
		if strings.HasPrefix(t, "//@") {
			body = t[3:]
		} else if strings.HasPrefix(t, "// @") {
			body = t[4:]
		} else {
			continue
		}
		// strip trailing // comments that are outside string literals: only when preceded by two spaces
		if k := strings.Index(body, "   //"); k >= 0 {
			body = body[:k]
		}
		trim := strings.TrimSpace(body)
		if trim == "" {
			continue
		}
		first := trim
		if k := strings.IndexAny(trim, " \t["); k >= 0 {
			first = trim[:k]
		}
		if keywords[first] {
			rest := strings.TrimSpace(trim[len(first):])
			arg := ""
			if strings.HasPrefix(rest, "[") {
				if k := strings.Index(rest, "]"); k > 0 {
					arg = rest[1:k]
					rest = strings.TrimSpace(rest[k+1:])
				}
			}
			out = append(out, rawLine{kw: first, arg: arg, text: rest, line: startLine + i})
		} else if len(out) > 0 {
			out[len(out)-1].text += " " + trim
		}
	}
	return out
}

var identRe = regexp.MustCompile(`[A-Za-z_][A-Za-z0-9_]*`)

// rewriteExpr turns contract-expression syntax into Go.
func rewriteExpr(s string) string {
	s = rewriteImplies(s)
	repl := map[string]string{"old": "Old", "forall": "Forall", "exists": "Exists", "fresh": "Fresh", "sameslice": "SameSlice"}
	var sb strings.Builder
	i := 0
	for i < len(s) {
		c := s[i]
		if c == '"' || c == '`' || c == '\'' {
			j := i + 1
			for j < len(s) && s[j] != c {
				if s[j] == '\\' && c != '`' {
					j++
				}
				j++
			}
			if j < len(s) {
				j++
			}
			sb.WriteString(s[i:j])
			i = j
			continue
		}
		if c == '_' || (c >= 'a' && c <= 'z') || (c >= 'A' && c <= 'Z') {
			j := i
			for j < len(s) && (s[j] == '_' || (s[j] >= 'a' && s[j] <= 'z') || (s[j] >= 'A' && s[j] <= 'Z') || (s[j] >= '0' && s[j] <= '9')) {
				j++
			}
			w := s[i:j]
			if r, ok := repl[w]; ok && (i == 0 || s[i-1] != '.') {
				k := j
				for k < len(s) && s[k] == ' ' {
					k++
				}
				if k < len(s) && s[k] == '(' {
					w = r
				}
			}
			sb.WriteString(w)
			i = j
			continue
		}
		sb.WriteByte(c)
		i++
	}
	return sb.String()
}

// rewriteImplies rewrites `a ==> b` (lowest precedence, right associative) into (!(a) || (b)) at every nesting level.
func rewriteImplies(s string) string {
	if !strings.Contains(s, "==>") {
		return s
	}
	// first rewrite inside groups
	var sb strings.Builder
	i := 0
	for i < len(s) {
		c := s[i]
		if c == '"' || c == '`' || c == '\'' {
			j := i + 1
			for j < len(s) && s[j] != c {
				if s[j] == '\\' && c != '`' {
					j++
				}
				j++
			}
			if j < len(s) {
				j++
			}
			sb.WriteString(s[i:j])
			i = j
			continue
		}
		if c == '(' || c == '{' || c == '[' {
			j := matchClose(s, i)
			if j < 0 {
				sb.WriteString(s[i:])
				break
			}
			inner := s[i+1 : j]
			if c == '{' {
				inner = rewriteBlock(inner)
			} else if c == '(' {
				inner = rewriteArgs(inner)
			}
			sb.WriteByte(c)
			sb.WriteString(inner)
			sb.WriteByte(s[j])
			i = j + 1
			continue
		}
		sb.WriteByte(c)
		i++
	}
	s = sb.String()
	parts := splitTop(s, "==>")
	if len(parts) == 1 {
		return s
	}
	r := strings.TrimSpace(parts[len(parts)-1])
	for k := len(parts) - 2; k >= 0; k-- {
		r = "(!(" + strings.TrimSpace(parts[k]) + ") || (" + r + "))"
	}
	return r
}

func rewriteArgs(inner string) string {
	parts := splitTop(inner, ",")
	for i, p := range parts {
		parts[i] = rewriteImplies(p)
	}
	return strings.Join(parts, ",")
}

func rewriteBlock(inner string) string {
	stmts := splitTop(inner, ";")
	for i, st := range stmts {
		t := strings.TrimSpace(st)
		if strings.HasPrefix(t, "return ") {
			stmts[i] = " return " + rewriteImplies(t[7:]) + " "
		} else {
			stmts[i] = rewriteImplies(st)
		}
	}
	return strings.Join(stmts, ";")
}

func matchClose(s string, i int) int {
	depth := 0
	for j := i; j < len(s); j++ {
		c := s[j]
		if c == '"' || c == '`' || c == '\'' {
			k := j + 1
			for k < len(s) && s[k] != c {
				if s[k] == '\\' && c != '`' {
					k++
				}
				k++
			}
			j = k
			continue
		}
		switch c {
		case '(', '{', '[':
			depth++
		case ')', '}', ']':
			depth--
			if depth == 0 {
				return j
			}
		}
	}
	return -1
}

func splitTop(s, sep string) []string {
	var parts []string
	depth := 0
	last := 0
	for i := 0; i < len(s); i++ {
		c := s[i]
		if c == '"' || c == '`' || c == '\'' {
			k := i + 1
			for k < len(s) && s[k] != c {
				if s[k] == '\\' && c != '`' {
					k++
				}
				k++
			}
			i = k
			continue
		}
		switch c {
		case '(', '{', '[':
			depth++
		case ')', '}', ']':
			depth--
		}
		if depth == 0 && strings.HasPrefix(s[i:], sep) {
			parts = append(parts, s[last:i])
			last = i + len(sep)
			i += len(sep) - 1
		}
	}
	parts = append(parts, s[last:])
	return parts
}

// parseSig parses "func (r *T) Name(a A) (x X)" or "func(a A) (x X)".
func parseSig(sig string) (recv *Param, name string, params, results []Param, err error) {
	src := "package p\n" + sig + " {}\n"
	if strings.HasPrefix(strings.TrimSpace(sig), "func(") {
		src = "package p\nfunc X" + strings.TrimSpace(sig)[4:] + " {}\n"
	}
	fset := token.NewFileSet()
	file, e := parser.ParseFile(fset, "sig.go", src, 0)
	if e != nil {
		return nil, "", nil, nil, fmt.Errorf("bad signature %q: %v", sig, e)
	}
	fd := file.Decls[0].(*ast.FuncDecl)
	str := func(e ast.Expr) string {
		var sb strings.Builder
		printer.Fprint(&sb, fset, e)
		return sb.String()
	}
	if fd.Recv != nil && len(fd.Recv.List) == 1 {
		r := fd.Recv.List[0]
		n := "self"
		if len(r.Names) > 0 {
			n = r.Names[0].Name
		}
		recv = &Param{n, str(r.Type)}
	}
	name = fd.Name.Name
	cnt := 0
	for _, fl := range fd.Type.Params.List {
		t := str(fl.Type)
		if strings.HasPrefix(t, "...") {
			t = "[]" + t[3:]
		}
		if len(fl.Names) == 0 {
			params = append(params, Param{fmt.Sprintf("arg%d", cnt), t})
			cnt++
		}
		for _, n := range fl.Names {
			nm := n.Name
			if nm == "_" {
				nm = fmt.Sprintf("arg%d", cnt)
			}
			params = append(params, Param{nm, t})
			cnt++
		}
	}
	if fd.Type.Results != nil {
		rc := 0
		for _, fl := range fd.Type.Results.List {
			t := str(fl.Type)
			if len(fl.Names) == 0 {
				results = append(results, Param{fmt.Sprintf("res%d", rc), t})
				rc++
			}
			for _, n := range fl.Names {
				results = append(results, Param{n.Name, t})
				rc++
			}
		}
	}
	return
}

type ContractSet struct {
	ExtInline []string // key prefixes of dependency functions that are inlined from source
	ByKey   map[string]*Contract
	All     []*Contract
	Overlay map[string][]byte
	Axioms  []*Clause
}

// specFile describes one source of contracts: a file on disk belonging to package pkgPath.
type specFile struct {
	Path    string
	PkgPath string
	Dir     string
}

func (cs *ContractSet) add(c *Contract) error {
	if old, ok := cs.ByKey[c.Key]; ok {
		return fmt.Errorf("%s:%d: duplicate contract for %s (also %s:%d)", c.File, c.Line, c.Key, old.File, old.Line)
	}
	cs.ByKey[c.Key] = c
	cs.All = append(cs.All, c)
	return nil
}

func parseLoopVars(s string) ([]Param, error) {
	// "vars(i int, n int)"
	s = strings.TrimSpace(s)
	if s == "" {
		return nil, nil
	}
	if !strings.HasPrefix(s, "vars(") || !strings.HasSuffix(s, ")") {
		return nil, fmt.Errorf("bad loop vars %q", s)
	}
	_, _, ps, _, err := parseSig("func(" + s[5:len(s)-1] + ")")
	return ps, err
}

// ExtractContracts parses all spec files and produces contracts and the overlay.
func ExtractContracts(files []specFile) (*ContractSet, error) {
	cs := &ContractSet{ByKey: map[string]*Contract{}, Overlay: map[string][]byte{}}
	byPkg := map[string][]*Contract{}
	pkgName := map[string]string{}
	pkgDir := map[string]string{}
	for _, sf := range files {
		src, err := os.ReadFile(sf.Path)
		if err != nil {
			return nil, err
		}
		fset := token.NewFileSet()
		af, err := parser.ParseFile(fset, sf.Path, src, parser.ParseComments)
		if err != nil {
			return nil, err
		}
		pkgName[sf.PkgPath] = af.Name.Name
		pkgDir[sf.PkgPath] = sf.Dir
		docOf := map[*ast.CommentGroup]*ast.FuncDecl{}
		for _, d := range af.Decls {
			if fd, ok := d.(*ast.FuncDecl); ok && fd.Doc != nil {
				docOf[fd.Doc] = fd
			}
		}
		for _, cg := range af.Comments {
			var lines []string
			for _, c := range cg.List {
				lines = append(lines, c.Text)
			}
			start := fset.Position(cg.Pos()).Line
			rl := atLines(lines, start)
			if len(rl) == 0 {
				continue
			}
			fd := docOf[cg]
			// a comment group may hold several blocks separated by `end`
			var blocks [][]rawLine
			var cur []rawLine
			for _, r := range rl {
				if r.kw == "extinline" {
					cs.ExtInline = append(cs.ExtInline, strings.TrimSpace(r.text))
					continue
				}
				if r.kw == "end" {
					if len(cur) > 0 {
						blocks = append(blocks, cur)
					}
					cur = nil
					continue
				}
				cur = append(cur, r)
			}
			if len(cur) > 0 {
				blocks = append(blocks, cur)
			}
			for _, b := range blocks {
				c, err := buildContract(b, sf, af, fd, fset)
				if err != nil {
					return nil, err
				}
				if c == nil {
					continue
				}
				c.PkgName = af.Name.Name
				c.Imports = af.Imports
				if err := cs.add(c); err != nil {
					return nil, err
				}
				byPkg[sf.PkgPath] = append(byPkg[sf.PkgPath], c)
			}
		}
	}
	// generate overlay files
	pkgs := make([]string, 0, len(byPkg))
	for p := range byPkg {
		pkgs = append(pkgs, p)
	}
	sort.Strings(pkgs)
	for _, p := range pkgs {
		src, err := genPackage(pkgName[p], byPkg[p])
		if err != nil {
			return nil, err
		}
		cs.Overlay[filepath.Join(pkgDir[p], "zz_govc_generated_verif.go")] = src
	}
	return cs, nil
}

func qualifyKey(k, pkgPath string) string { return strings.ReplaceAll(k, "$PKG", pkgPath) }

func buildContract(b []rawLine, sf specFile, af *ast.File, fd *ast.FuncDecl, fset *token.FileSet) (*Contract, error) {
	c := &Contract{PkgPath: sf.PkgPath, Dir: sf.Dir, File: sf.Path, Line: b[0].line, Loops: map[int]*LoopSpec{}}
	h := b[0]
	pos := func(r rawLine) string { return fmt.Sprintf("%s:%d", filepath.Base(sf.Path), r.line) }
	switch h.kw {
	case "func":
		recv, name, ps, rs, err := parseSig("func " + h.text)
		if err != nil {
			return nil, fmt.Errorf("%s: %v", pos(h), err)
		}
		c.Kind = "func"
		if recv != nil {
			c.HasRecv = true
			c.Params = append([]Param{*recv}, ps...)
			t := recv.Type
			if strings.HasPrefix(t, "*") {
				c.Key = "(*" + sf.PkgPath + "." + t[1:] + ")." + name
			} else {
				c.Key = "(" + sf.PkgPath + "." + t + ")." + name
			}
		} else {
			c.Params = ps
			c.Key = sf.PkgPath + "." + name
		}
		c.Results = rs
	case "ext", "iface":
		// key func(sig)
		k := strings.Index(h.text, " func(")
		if k < 0 {
			return nil, fmt.Errorf("%s: ext/iface needs `<key> func(...)`", pos(h))
		}
		c.Key = qualifyKey(strings.TrimSpace(h.text[:k]), sf.PkgPath)
		_, _, ps, rs, err := parseSig(strings.TrimSpace(h.text[k+1:]))
		if err != nil {
			return nil, fmt.Errorf("%s: %v", pos(h), err)
		}
		c.Kind = h.kw
		c.Params, c.Results = ps, rs
	case "lemma", "spec":
		if fd == nil {
			return nil, fmt.Errorf("%s: //@ %s must be the doc comment of a function", pos(h), h.kw)
		}
		c.Kind = h.kw
		var sb strings.Builder
		hdr := &ast.FuncDecl{Recv: fd.Recv, Name: fd.Name, Type: fd.Type}
		printer.Fprint(&sb, fset, hdr)
		_, name, ps, rs, err := parseSig(strings.TrimSpace(sb.String()))
		if err != nil {
			return nil, fmt.Errorf("%s: %v", pos(h), err)
		}
		c.Params, c.Results = ps, rs
		c.Key = sf.PkgPath + "." + name
		// rest of header line may contain "props C01 C02" or "opaque"
		toks := strings.Fields(h.text)
		for i := 0; i < len(toks); i++ {
			switch toks[i] {
			case "opaque":
				c.Opaque = true
			case "ghost":
				c.Ghost = true
			case "rec":
				c.Rec = true
			case "auto":
				c.Auto = true
			case "trusted":
				c.Trusted = "trusted"
			case "props":
				c.Props = append(c.Props, toks[i+1:]...)
				i = len(toks)
			}
		}
	case "axiom":
		return nil, fmt.Errorf("%s: axioms are written as lemma functions marked trusted", pos(h))
	default:
		return nil, fmt.Errorf("%s: block must start with func/ext/iface/lemma/spec, got %q", pos(h), h.kw)
	}
	c.id = sanitizeID(c.Key)
	var curLoop *LoopSpec
	for _, r := range b[1:] {
		switch r.kw {
		case "props":
			c.Props = append(c.Props, strings.Fields(r.text)...)
		case "safety":
			c.Safety = append(c.Safety, strings.Fields(r.text)...)
		case "reveal":
			c.Reveal = append(c.Reveal, strings.Fields(r.text)...)
		case "requires":
			c.Requires = append(c.Requires, &Clause{Kind: "requires", Text: r.text, Pos: pos(r), Props: strings.Fields(r.arg)})
		case "ensures":
			c.Ensures = append(c.Ensures, &Clause{Kind: "ensures", Text: r.text, Pos: pos(r), Props: strings.Fields(r.arg)})
		case "assigns":
			c.Assigns = &Clause{Kind: "assigns", Text: r.text, Pos: pos(r)}
		case "alloc":
			c.Alloc = &Clause{Kind: "alloc", Text: r.text, Pos: pos(r)}
		case "let":
			c.Lets = append(c.Lets, r.text)
		case "trusted":
			c.Trusted = r.text
			if c.Trusted == "" {
				c.Trusted = "trusted"
			}
		case "opaque":
			c.Opaque = true
		case "inline":
			c.Inline = true
		case "pure":
			c.Pure = true
		case "loop":
			toks := strings.SplitN(r.text, " ", 2)
			n, err := strconv.Atoi(toks[0])
			if err != nil {
				return nil, fmt.Errorf("%s: bad loop ordinal", pos(r))
			}
			curLoop = &LoopSpec{Ordinal: n}
			if len(toks) > 1 && strings.HasPrefix(strings.TrimSpace(toks[1]), "nonterminating") {
				curLoop.NonTerm = true
				rest := strings.TrimSpace(strings.TrimPrefix(strings.TrimSpace(toks[1]), "nonterminating"))
				if rest == "" {
					toks = toks[:1]
				} else {
					toks[1] = rest
				}
			}
			if len(toks) > 1 {
				vs, err := parseLoopVars(toks[1])
				if err != nil {
					return nil, fmt.Errorf("%s: %v", pos(r), err)
				}
				curLoop.Vars = vs
			}
			c.Loops[n] = curLoop
		case "invariant":
			if curLoop == nil {
				return nil, fmt.Errorf("%s: invariant outside loop", pos(r))
			}
			curLoop.Invs = append(curLoop.Invs, &Clause{Kind: "invariant", Text: r.text, Pos: pos(r), Props: strings.Fields(r.arg)})
		case "decreases":
			if curLoop == nil {
				c.Dec = &Clause{Kind: "decreases", Text: r.text, Pos: pos(r)}
				continue
			}
			curLoop.Dec = &Clause{Kind: "decreases", Text: r.text, Pos: pos(r)}
		default:
			return nil, fmt.Errorf("%s: unexpected %q inside block", pos(r), r.kw)
		}
	}
	return c, nil
}

func sanitizeID(k string) string {
	var sb strings.Builder
	for _, r := range k {
		if (r >= 'a' && r <= 'z') || (r >= 'A' && r <= 'Z') || (r >= '0' && r <= '9') {
			sb.WriteRune(r)
		} else {
			sb.WriteByte('_')
		}
	}
	return sb.String()
}

func paramList(ps []Param) string {
	var xs []string
	for _, p := range ps {
		xs = append(xs, p.Name+" "+p.Type)
	}
	return strings.Join(xs, ", ")
}

func letStmts(lets []string) string {
	var sb strings.Builder
	for _, l := range lets {
		k := strings.Index(l, "=")
		if k < 0 {
			continue
		}
		names := strings.Split(l[:k], ",")
		expr := rewriteExpr(strings.TrimSpace(l[k+1:]))
		for i := range names {
			names[i] = strings.TrimSpace(names[i])
		}
		old := "Old"
		if len(names) == 2 {
			old = "Old2"
		} else if len(names) == 3 {
			old = "Old3"
		}
		fmt.Fprintf(&sb, "\t%s := %s(%s)\n", strings.Join(names, ", "), old, expr)
		for _, n := range names {
			fmt.Fprintf(&sb, "\t_ = %s\n", n)
		}
	}
	return sb.String()
}

func assignsBody(text string) string {
	var sb strings.Builder
	t := strings.TrimSpace(text)
	if t == "none" || t == "" {
		return ""
	}
	if k := strings.Index(t, " when "); k > 0 {
		// conditional frame: the locations are written only when the condition holds in the pre-state
		cond := rewriteExpr(strings.TrimSpace(t[k+6:]))
		inner := assignsBody(t[:k])
		return "\tAssignsWhen(" + cond + ")\n" + inner
	}
	for _, it := range splitTop(t, ",") {
		it = strings.TrimSpace(it)
		switch {
		case strings.HasPrefix(it, "spare(") && strings.HasSuffix(it, ")"):
			fmt.Fprintf(&sb, "\tAssignsSpare(%s)\n", it[6:len(it)-1])
		case strings.HasPrefix(it, "object(") && strings.HasSuffix(it, ")"):
			fmt.Fprintf(&sb, "\tAssignsObject(%s)\n", it[7:len(it)-1])
		case strings.HasPrefix(it, "ghost(") && strings.HasSuffix(it, ")"):
			fmt.Fprintf(&sb, "\tAssignsGhost(%s)\n", it[6:len(it)-1])
		case strings.HasSuffix(it, "[:]"):
			fmt.Fprintf(&sb, "\tAssignsElems(%s)\n", it[:len(it)-3])
		case strings.HasSuffix(it, "[*]"):
			fmt.Fprintf(&sb, "\tAssignsMap(%s)\n", it[:len(it)-3])
		case strings.HasPrefix(it, "*"):
			fmt.Fprintf(&sb, "\tAssignsAt(%s)\n", it[1:])
		default:
			fmt.Fprintf(&sb, "\tAssignsAt(&%s)\n", it)
		}
	}
	return sb.String()
}

func genPackage(pkgName string, cs []*Contract) ([]byte, error) {
	var body strings.Builder
	for _, c := range cs {
		pre := paramList(c.Params)
		all := paramList(append(append([]Param{}, c.Params...), c.Results...))
		lets := letStmts(c.Lets)
		for i, cl := range c.Requires {
			cl.FnName = fmt.Sprintf("Vc_%s_pre%d", c.id, i)
			fmt.Fprintf(&body, "func %s(%s) bool {\n%s\treturn %s\n}\n\n", cl.FnName, pre, lets, rewriteExpr(cl.Text))
		}
		for i, cl := range c.Ensures {
			cl.FnName = fmt.Sprintf("Vc_%s_post%d", c.id, i)
			fmt.Fprintf(&body, "func %s(%s) bool {\n%s\treturn %s\n}\n\n", cl.FnName, all, lets, rewriteExpr(cl.Text))
		}
		if c.Assigns != nil {
			c.Assigns.FnName = fmt.Sprintf("Vc_%s_asg", c.id)
			fmt.Fprintf(&body, "func %s(%s) {\n%s%s}\n\n", c.Assigns.FnName, pre, lets, assignsBody(c.Assigns.Text))
		}
		if c.Alloc != nil {
			c.Alloc.FnName = fmt.Sprintf("Vc_%s_alloc", c.id)
			fmt.Fprintf(&body, "func %s(%s) int {\n%s\treturn %s\n}\n\n", c.Alloc.FnName, pre, lets, rewriteExpr(c.Alloc.Text))
		}
		if c.Dec != nil {
			c.Dec.FnName = fmt.Sprintf("Vc_%s_dec", c.id)
			fmt.Fprintf(&body, "func %s(%s) int {\n%s\treturn %s\n}\n\n", c.Dec.FnName, pre, lets, rewriteExpr(c.Dec.Text))
		}
		var ords []int
		for o := range c.Loops {
			ords = append(ords, o)
		}
		sort.Ints(ords)
		for _, o := range ords {
			ls := c.Loops[o]
			lp := paramList(append(append([]Param{}, c.Params...), ls.Vars...))
			for i, cl := range ls.Invs {
				cl.FnName = fmt.Sprintf("Vc_%s_loop%d_inv%d", c.id, o, i)
				fmt.Fprintf(&body, "func %s(%s) bool {\n%s\treturn %s\n}\n\n", cl.FnName, lp, lets, rewriteExpr(cl.Text))
			}
			if ls.Dec != nil {
				ls.Dec.FnName = fmt.Sprintf("Vc_%s_loop%d_dec", c.id, o)
				fmt.Fprintf(&body, "func %s(%s) int {\n%s\treturn %s\n}\n\n", ls.Dec.FnName, lp, lets, rewriteExpr(ls.Dec.Text))
			}
		}
	}
	// imports: union of import specs of the contract files, pruned to those used
	probe := "package " + pkgName + "\n" + body.String()
	fset := token.NewFileSet()
	pf, err := parser.ParseFile(fset, "gen.go", probe, 0)
	if err != nil {
		return nil, fmt.Errorf("generated contract code for package %s does not parse: %v\n%s", pkgName, err, numbered(probe))
	}
	used := map[string]bool{}
	for _, d := range pf.Decls {
		fd, ok := d.(*ast.FuncDecl)
		if !ok {
			continue
		}
		shadow := map[string]bool{}
		for _, fl := range fd.Type.Params.List {
			for _, n := range fl.Names {
				shadow[n.Name] = true
			}
		}
		// selector uses in parameter types too
		ast.Inspect(fd, func(n ast.Node) bool {
			if se, ok := n.(*ast.SelectorExpr); ok {
				if id, ok := se.X.(*ast.Ident); ok {
					used[id.Name] = true
					_ = shadow
				}
			}
			return true
		})
	}
	seen := map[string]bool{}
	var imps []string
	for _, c := range cs {
		for _, is := range c.Imports {
			path, _ := strconv.Unquote(is.Path.Value)
			name := filepath.Base(path)
			if is.Name != nil {
				name = is.Name.Name
			}
			if name == "." {
				continue
			}
			if name == "_" || !used[name] {
				continue
			}
			key := name + " " + path
			if seen[key] {
				continue
			}
			seen[key] = true
			if is.Name != nil {
				imps = append(imps, fmt.Sprintf("\t%s %q", is.Name.Name, path))
			} else {
				imps = append(imps, fmt.Sprintf("\t%q", path))
			}
		}
	}
	var out strings.Builder
	out.WriteString("//go:build verif\n\n// Code generated by govc from //@ contract blocks. DO NOT EDIT.\n\npackage " + pkgName + "\n\nimport (\n")
	if pkgName != "vspec" {
		out.WriteString("\t. \"github.com/cloudflare/pat-go/internal/vspec\"\n")
	}
	out.WriteString(strings.Join(imps, "\n"))
	out.WriteString("\n)\n\nvar _ = Vassert\n\n")
	out.WriteString(body.String())
	return []byte(out.String()), nil
}

func numbered(s string) string {
	var sb strings.Builder
	for i, l := range strings.Split(s, "\n") {
		fmt.Fprintf(&sb, "%4d %s\n", i+1, l)
	}
	return sb.String()
}
