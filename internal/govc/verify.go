package govc

import (
	"fmt"
	"go/types"
	"sort"
	"strings"

	"golang.org/x/tools/go/ssa"
)

type FnResult struct {
	Key        string
	Contract   *Contract
	Obls       []*Obligation
	Notes      []string
	Unsup      []string
	Used       []string // contracts relied upon
	Script     *Script
	Trusted    bool
	CoverCond  *Term
	GenSecs    float64
	Err        string
	ctx        *FnCtx
	fn         *ssa.Function
	args       []Value
}

var safetyKinds = map[string]bool{"bounds": true, "nil": true, "div": true, "shift": true, "assertT": true, "panic": true, "alloc": true, "variant": true}
var frameKinds = map[string]bool{"frame": true, "spare": true}

func has(xs []string, x string) bool {
	for _, y := range xs {
		if y == x {
			return true
		}
	}
	return false
}

func shortKey(k string) string {
	return strings.ReplaceAll(k, ModulePath+"/", "")
}

func (e *Engine) newCtx(fn *ssa.Function, ct *Contract) *FnCtx {
	c := &FnCtx{e: e, f: NewFactory(), top: fn, contract: ct, kindCount: map[string]int{}, heap0: map[string]*Term{},
		heapSort: map[string]Sort{}, used: map[string]bool{}, freshRefs: map[int]bool{}, structs: map[string]*structInfo{},
		globals: map[*ssa.Global]*Term{}, ghostByType: map[string][]ghostField{}, inlinedExt: map[string]bool{}}
	c.f.RegisterSeq("B", SInt, true)
	c.alpha0 = c.f.Const("alpha0", SInt)
	c.f.SetRange(c.alpha0, bi(0), nil)
	c.curFn = shortKey(FnKey(fn))
	return c
}

// VerifyFunction generates the obligations of one function against its contract.
func (e *Engine) VerifyFunction(key string) (res *FnResult) {
	ct := e.Contracts.ByKey[key]
	fn := e.FnByKey[key]
	res = &FnResult{Key: key, Contract: ct}
	if fn == nil {
		res.Err = "function not found in the loaded program: " + key
		return
	}
	if ct == nil {
		res.Err = "no contract for " + key
		return
	}
	if ct.Trusted != "" {
		res.Trusted = true
		return
	}
	defer func() {
		if r := recover(); r != nil {
			res.Err = fmt.Sprintf("internal error while generating VCs for %s: %v", key, r)
			if e.Verbose {
				panic(r)
			}
		}
	}()
	c := e.newCtx(fn, ct)
	f := c.f
	st := &State{R: f.True(), heap: map[string]*Term{}, alpha: c.alpha0}
	// parameters
	var args []Value
	for i, p := range fn.Params {
		v := c.freshValue(st, "p."+p.Name(), p.Type())
		if v == nil {
			c.unsupported("parameter %s of static-only type %s", p.Name(), p.Type())
		}
		if i == 0 && fn.Signature.Recv() != nil {
			if t, ok := v.(*Term); ok && t.sort == SInt {
				c.assume(st, f.Lt(f.Int(0), t)) // non-nil receiver
			}
		}
		args = append(args, v)
	}
	if len(ct.Params) != len(args) {
		res.Err = fmt.Sprintf("contract header of %s has %d parameters, function has %d", key, len(ct.Params), len(args))
		return
	}
	if len(ct.Results) != fn.Signature.Results().Len() {
		res.Err = fmt.Sprintf("contract header of %s has %d results, function has %d", key, len(ct.Results), fn.Signature.Results().Len())
		return
	}
	for _, rq := range ct.Requires {
		cond, _ := c.evalClause(rq.FnName, ct.PkgPath, args, st, nil)
		c.assume(st, cond)
	}
	if ct.Assigns != nil {
		c.hasFrame = true
		c.assigns = c.collectAssigns(ct, args, st)
	}
	if ct.Alloc != nil {
		if afn := c.lookupSynthetic(ct.PkgPath, ct.Alloc.FnName); afn != nil {
			if t, ok := c.evalGhost(afn, args, st, nil).(*Term); ok {
				c.allocBnd = t
			}
		}
	} else if has(ct.Props, "C03") {
		var sum *Term = f.Int(4096)
		for i, p := range fn.Params {
			switch u := p.Type().Underlying().(type) {
			case *types.Slice:
				if t, ok := args[i].(*Term); ok {
					sum = f.Add(sum, f.Mul(f.Int(16*c.sizeof(u.Elem())), f.SlLen(t)))
				}
			case *types.Basic:
				if u.Info()&types.IsString != 0 {
					sum = f.Add(sum, f.Mul(f.Int(16), f.SLen(args[i].(*Term))))
				}
			}
		}
		c.allocBnd = sum
	}
	entry := st.clone()
	fr := c.newFrame(fn, args, st)
	fr.isTop = true
	c.stack = append(c.stack, fn)
	fr.runBlocks(fr.order, st, nil)
	c.stack = nil
	rv, out := fr.mergeReturns()
	_ = rv
	if out != nil {
		res.CoverCond = out.R
		c.freshBase = c.alpha0
		// Postconditions are evaluated at every return point separately (simpler terms than on the
		// merged exit state) and combined into one obligation per clause.
		for k, en := range ct.Ensures {
			var parts []*Term
			for _, r := range fr.rets {
				rs := r.st.clone()
				all := append(append([]Value{}, args...), r.vals...)
				cond, _ := c.evalClause(en.FnName, ct.PkgPath, all, rs, entry)
				parts = append(parts, f.Implies(rs.R, cond))
			}
			tst := &State{R: f.True(), heap: map[string]*Term{}, alpha: out.alpha}
			fr.obligeClause(tst, "ensures", f.And(parts...), en, fmt.Sprintf("postcondition %d", k))
		}
	} else {
		c.note("no return is reachable")
	}
	// attribution
	for _, o := range c.obls {
		if len(o.Props) > 0 {
			continue
		}
		switch {
		case safetyKinds[o.Kind]:
			if len(ct.Safety) > 0 {
				o.Props = ct.Safety
			} else if has(ct.Props, "C03") {
				o.Props = []string{"C03"}
			} else {
				o.Props = ct.Props
			}
		case frameKinds[o.Kind]:
			o.Props = ct.Props
		default:
			var ps []string
			for _, p := range ct.Props {
				if p != "C03" && p != "C16" && p != "C17" {
					ps = append(ps, p)
				}
			}
			if len(ps) == 0 {
				ps = ct.Props
			}
			o.Props = ps
		}
	}
	res.Obls = c.obls
	res.Notes = c.notes
	res.Unsup = c.unsup
	for k := range c.used {
		res.Used = append(res.Used, k)
	}
	sort.Strings(res.Used)
	res.Script = c.buildScript()
	res.ctx, res.fn, res.args = c, fn, args
	return
}
