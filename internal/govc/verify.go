package govc

import (
	"fmt"
	"go/types"
	"sort"
	"strings"

	"golang.org/x/tools/go/ssa"
)

type FnResult struct {
	Key        string
	Contract   *Contract
	Obls       []*Obligation
	Notes      []string
	Unsup      []string
	Used       []string // contracts relied upon
	AxiomsUsed []string // origins of the global axioms relevant to this function's goals
	Intrinsics []string // dependency functions modelled by engine code
	Script     *Script
	Trusted    bool
	CoverCond  *Term
	GenSecs    float64
	Err        string
	// CounterFallback: a contract loop variable was bound to the loop's only counter (renamed variable)
	CounterFallback bool
	ctx        *FnCtx
	fn         *ssa.Function
	args       []Value
}

var safetyKinds = map[string]bool{"bounds": true, "nil": true, "div": true, "shift": true, "assertT": true, "panic": true, "alloc": true, "variant": true}
var frameKinds = map[string]bool{"frame": true, "spare": true}

func has(xs []string, x string) bool {
	for _, y := range xs {
		if y == x {
			return true
		}
	}
	return false
}

func shortKey(k string) string {
	return strings.ReplaceAll(k, ModulePath+"/", "")
}

func (e *Engine) newCtx(fn *ssa.Function, ct *Contract) *FnCtx {
	c := &FnCtx{e: e, f: NewFactory(), top: fn, contract: ct, kindCount: map[string]int{}, heap0: map[string]*Term{},
		heapSort: map[string]Sort{}, used: map[string]bool{}, freshRefs: map[int]bool{}, structs: map[string]*structInfo{},
		globals: map[*ssa.Global]*Term{}, ghostByType: map[string][]ghostField{}, inlinedExt: map[string]bool{}, unfolding: map[string]int{}, revealed: map[string]bool{}}
	if ct != nil {
		for _, r := range ct.Reveal {
			if strings.Contains(r, "/") {
				c.revealed[r] = true
			} else {
				c.revealed[ct.PkgPath+"."+r] = true
			}
		}
	}
	c.f.RegisterSeq("B", SInt, true)
	c.alpha0 = c.f.Const("alpha0", SInt)
	c.f.SetRange(c.alpha0, bi(0), nil)
	c.curFn = shortKey(FnKey(fn))
	c.autoAxioms()
	return c
}

// autoAxioms asserts the ensures clauses of `//@ lemma auto trusted` functions, universally
// quantified over their (scalar / string) parameters: the assumed algebraic facts about opaque
// specification functions. They are listed in every evidence file.
func (c *FnCtx) autoAxioms() {
	f := c.f
	var keys []string
	for k, ct := range c.e.Contracts.ByKey {
		if ct.Auto {
			keys = append(keys, k)
		}
	}
	sort.Strings(keys)
	for _, k := range keys {
		ct := c.e.Contracts.ByKey[k]
		fn := c.e.FnByKey[k]
		if fn == nil {
			continue
		}
		// A proved (non-trusted) auto lemma is not available to its own proof (it recurses by contract,
		// with a variant) nor to the proofs of auto lemmas that come before it in key order: the
		// dependency between proved lemmas is thus well-founded.
		if ct.Trusted == "" && c.contract != nil && c.contract.Auto && c.contract.Trusted == "" && k >= c.contract.Key {
			continue
		}
		var vars []*Term
		var args []Value
		ok := true
		for _, p := range fn.Params {
			s, sok := c.sortOf(p.Type())
			if !sok {
				ok = false
				break
			}
			v := f.BoundVar(p.Name(), s)
			c.typeRange(v, p.Type())
			vars = append(vars, v)
			args = append(args, v)
		}
		if !ok {
			c.unsupported("auto axiom %s has a parameter of static-only type", k)
			continue
		}
		pre := f.True()
		for _, rq := range ct.Requires {
			st := &State{R: f.True(), heap: map[string]*Term{}, alpha: c.alpha0}
			cond, rok := c.evalClause(rq.FnName, ct.PkgPath, args, st, nil)
			if !rok {
				ok = false
				break
			}
			pre = f.And(pre, cond)
		}
		if !ok {
			continue
		}
		for _, en := range ct.Ensures {
			st := &State{R: f.True(), heap: map[string]*Term{}, alpha: c.alpha0}
			body, bok := c.evalClause(en.FnName, ct.PkgPath, args, st, nil)
			if !bok {
				continue
			}
			// side conditions produced while evaluating (type invariants of opaque results) are part of the fact
			body = f.Implies(pre, f.And(st.R, body))
			if len(vars) == 0 {
				c.termAxioms = append(c.termAxioms, body)
				c.noteAxiom(len(c.termAxioms)-1, k, ct)
				continue
			}
			var guards []*Term
			for i, v := range vars {
				if v.sort == SInt {
					if bits, signed, iok := intInfo(fn.Params[i].Type()); iok {
						lo, hi := intRange(bits, signed)
						guards = append(guards, f.mk("<=", SBool, "", f.IntB(lo), v), f.mk("<=", SBool, "", v, f.IntB(hi)))
					}
				}
			}
			c.termAxioms = append(c.termAxioms, f.Forall(vars, f.Implies(f.And(guards...), body)))
			c.noteAxiom(len(c.termAxioms)-1, k, ct)
		}
		c.axiomsUsed = append(c.axiomsUsed, shortKey(k))
	}
}

// noteAxiom remembers which lemma a global axiom comes from (assumed ones are reported in the evidence).
func (c *FnCtx) noteAxiom(idx int, key string, ct *Contract) {
	if c.axiomName == nil {
		c.axiomName = map[int]string{}
	}
	if ct.Trusted != "" {
		c.axiomName[idx] = "assumed axiom " + shortKey(key)
	} else {
		c.axiomName[idx] = "proved lemma used as a fact " + shortKey(key)
	}
}

// VerifyFunction generates the obligations of one function against its contract.
func (e *Engine) VerifyFunction(key string) (res *FnResult) {
	ct := e.Contracts.ByKey[key]
	fn, recvNowPtr := e.FunctionFor(key)
	res = &FnResult{Key: key, Contract: ct}
	if fn == nil {
		res.Err = "function not found in the loaded program: " + key
		return
	}
	if ct == nil {
		res.Err = "no contract for " + key
		return
	}
	if ct.Trusted != "" {
		res.Trusted = true
		return
	}
	defer func() {
		if r := recover(); r != nil {
			res.Err = fmt.Sprintf("internal error while generating VCs for %s: %v", key, r)
			if e.Verbose {
				panic(r)
			}
		}
	}()
	c := e.newCtx(fn, ct)
	f := c.f
	st := &State{R: f.True(), heap: map[string]*Term{}, alpha: c.alpha0}
	// parameters
	var args []Value
	for i, p := range fn.Params {
		v := c.freshValue(st, "p."+p.Name(), p.Type())
		if v == nil {
			c.unsupported("parameter %s of static-only type %s", p.Name(), p.Type())
		}
		if i == 0 && fn.Signature.Recv() != nil {
			if t, ok := v.(*Term); ok && t.sort == SInt {
				c.assume(st, f.Lt(f.Int(0), t)) // non-nil receiver
			}
		}
		args = append(args, v)
	}
	if len(ct.Params) != len(args) {
		res.Err = fmt.Sprintf("contract header of %s has %d parameters, function has %d", key, len(ct.Params), len(args))
		return
	}
	if len(ct.Results) != fn.Signature.Results().Len() {
		res.Err = fmt.Sprintf("contract header of %s has %d results, function has %d", key, len(ct.Results), fn.Signature.Results().Len())
		return
	}
	// cargs: the arguments as the contract sees them (a value receiver that became a pointer receiver is
	// the struct value at entry)
	cargs := args
	if recvNowPtr {
		if ptr, ok := args[0].(*Term); ok {
			pt := fn.Params[0].Type().Underlying().(*types.Pointer).Elem()
			cargs = append([]Value{c.loadStruct(st, c.structInfoOf(pt), ptr)}, args[1:]...)
		}
	}
	for _, rq := range ct.Requires {
		cond, _ := c.evalClause(rq.FnName, ct.PkgPath, cargs, st, nil)
		c.assume(st, cond)
	}
	if ct.Dec != nil {
		if dfn := c.lookupSynthetic(ct.PkgPath, ct.Dec.FnName); dfn != nil {
			if d, ok := c.evalGhost(dfn, cargs, st.clone(), nil).(*Term); ok {
				c.topDec = d
			}
		}
	}
	if ct.Assigns != nil {
		c.hasFrame = true
		c.assigns = c.collectAssigns(ct, cargs, st)
	}
	if ct.Alloc != nil {
		if afn := c.lookupSynthetic(ct.PkgPath, ct.Alloc.FnName); afn != nil {
			if t, ok := c.evalGhost(afn, cargs, st, nil).(*Term); ok {
				c.allocBnd = t
			}
		}
	} else if has(ct.Props, "C03") {
		var sum *Term = f.Int(4096)
		for i, p := range fn.Params {
			switch u := p.Type().Underlying().(type) {
			case *types.Slice:
				if t, ok := args[i].(*Term); ok {
					sum = f.Add(sum, f.Mul(f.Int(16*c.sizeof(u.Elem())), f.SlLen(t)))
				}
			case *types.Basic:
				if u.Info()&types.IsString != 0 {
					sum = f.Add(sum, f.Mul(f.Int(16), f.SLen(args[i].(*Term))))
				}
			}
		}
		c.allocBnd = sum
	}
	entry := st.clone()
	fr := c.newFrame(fn, args, st)
	fr.isTop = true
	c.stack = append(c.stack, fn)
	fr.runBlocks(fr.order, st, nil)
	c.stack = nil
	rv, out := fr.mergeReturns()
	_ = rv
	if out != nil {
		res.CoverCond = out.R
		c.coverCond = out.R
		c.freshBase = c.alpha0
		// Postconditions are evaluated at every return point separately (simpler terms than on the
		// merged exit state) and combined into one obligation per clause.
		chain := &State{R: f.True(), heap: map[string]*Term{}, alpha: out.alpha}
		for k, en := range ct.Ensures {
			var parts []*Term
			for _, r := range fr.rets {
				rs := r.st.clone()
				all := append(append([]Value{}, cargs...), r.vals...)
				cond, _ := c.evalClause(en.FnName, ct.PkgPath, all, rs, entry)
				parts = append(parts, f.Implies(rs.R, cond))
			}
			// each postcondition is proved on its own, from the path conditions of the return points only
			one := &State{R: f.True(), heap: map[string]*Term{}, alpha: out.alpha}
			fr.obligeClause(one, "ensures", f.And(parts...), en, fmt.Sprintf("postcondition %d", k))
		}
		if recvNowPtr {
			// the contract was written for a value receiver, which cannot modify the caller's object
			if ptr, ok := args[0].(*Term); ok {
				pt := fn.Params[0].Type().Underlying().(*types.Pointer).Elem()
				si := c.structInfoOf(pt)
				var parts []*Term
				for _, r := range fr.rets {
					parts = append(parts, f.Implies(r.st.R, f.Eq(c.loadStruct(r.st, si, ptr), c.loadStruct(entry, si, ptr))))
				}
				c.oblige(chain, "frame", f.And(parts...), c.e.pos(fn.Pos()), "the contract is for a value receiver: the receiver object is unchanged on return")
			}
		}
	} else {
		c.note("no return is reachable")
	}
	// attribution
	for _, o := range c.obls {
		if len(o.Props) > 0 {
			continue
		}
		switch {
		case safetyKinds[o.Kind]:
			if len(ct.Safety) > 0 {
				o.Props = ct.Safety
			} else if has(ct.Props, "C03") {
				o.Props = []string{"C03"}
			} else {
				o.Props = ct.Props
			}
		case frameKinds[o.Kind] || o.Kind == "pre":
			// frames and callee preconditions underpin every use of a contract (and the callee's own safety)
			o.Props = ct.Props
		default:
			// a clause about freshness / aliasing of results is what callers' frame reasoning rests on
			aliasing := strings.Contains(o.Text, "fresh(") || strings.Contains(o.Text, "sameslice(") || strings.Contains(o.Text, "SameSlice(")
			var ps []string
			for _, p := range ct.Props {
				if p == "C16" && aliasing {
					ps = append(ps, p)
					continue
				}
				if p != "C03" && p != "C16" && p != "C17" {
					ps = append(ps, p)
				}
			}
			if len(ps) == 0 {
				ps = ct.Props
			}
			o.Props = ps
		}
	}
	res.Obls = c.obls
	res.Notes = c.notes
	res.Unsup = c.unsup
	for k := range c.used {
		res.Used = append(res.Used, k)
	}
	sort.Strings(res.Used)
	res.Script = c.buildScript()
	res.AxiomsUsed = res.Script.AxiomNames
	for k := range c.intrinsics {
		res.Intrinsics = append(res.Intrinsics, k)
	}
	sort.Strings(res.Intrinsics)
	res.CounterFallback = c.counterFallback
	res.ctx, res.fn, res.args = c, fn, args
	return
}


// Rebind retries a function whose loop contract was bound through the counter fallback and did not verify:
// the renamed counter may be the contract's variable shifted by one. The first reading under which every
// selected obligation is discharged replaces the result; otherwise the original result stands.
func (e *Engine) Rebind(r *FnResult, opt SolveOptions) *FnResult {
	if r == nil || !r.CounterFallback || r.Err != "" {
		return r
	}
	failed := func(x *FnResult) bool {
		for _, o := range x.Obls {
			if (opt.Select == nil || opt.Select(o)) && o.Result != "discharged" {
				return true
			}
		}
		return false
	}
	if !failed(r) {
		return r
	}
	defer func() { e.LoopShift = 0 }()
	for _, sh := range []int{-1, 1} {
		e.LoopShift = sh
		r2 := e.VerifyFunction(r.Key)
		if r2.Err != "" {
			continue
		}
		r2.Discharge(opt)
		if !failed(r2) {
			return r2
		}
	}
	return r
}
