package govc

import (
	"fmt"
	"go/token"
	"go/types"
	"os"
	"path/filepath"
	"sort"
	"strings"

	"golang.org/x/tools/go/packages"
	"golang.org/x/tools/go/ssa"
	"golang.org/x/tools/go/ssa/ssautil"
)

const ModulePath = "github.com/cloudflare/pat-go"
const VspecPath = ModulePath + "/internal/vspec"

type Engine struct {
	RepoDir   string
	VerifDir  string
	Fset      *token.FileSet
	Prog      *ssa.Program
	Pkgs      []*packages.Package
	SSAPkgs   map[string]*ssa.Package
	Contracts *ContractSet
	FnByKey   map[string]*ssa.Function
	GlobalInit map[*ssa.Global]ssa.Value // constant initialisers found in init functions
	GlobalMulti map[*ssa.Global]bool     // assigned outside init or more than once
	modStructs []*types.Named
	typeIDs   map[string]int
	typeByID  []types.Type
	Verbose   bool
	// LoopShift: offset added to a loop counter that stands in for a contract loop variable not found by
	// name (see loopVarValueT); set by VerifyWithRebinding only.
	LoopShift int
	// LeanQuant: do not restate slice-header invariants inside quantifier bodies
	LeanQuant bool
}

// FnKey is the stable name of a function used to attach contracts.
func FnKey(fn *ssa.Function) string {
	if fn == nil {
		return "<nil>"
	}
	if o := fn.Origin(); o != nil {
		fn = o
	}
	return fn.String()
}

func Load(repoDir, verifDir string) (*Engine, error) {
	e := &Engine{RepoDir: repoDir, VerifDir: verifDir, SSAPkgs: map[string]*ssa.Package{}, FnByKey: map[string]*ssa.Function{},
		GlobalInit: map[*ssa.Global]ssa.Value{}, GlobalMulti: map[*ssa.Global]bool{}, typeIDs: map[string]int{}}
	var files []specFile
	err := filepath.Walk(repoDir, func(p string, info os.FileInfo, err error) error {
		if err != nil {
			return err
		}
		if info.IsDir() {
			if strings.HasPrefix(info.Name(), ".") && p != repoDir {
				return filepath.SkipDir
			}
			return nil
		}
		n := info.Name()
		isVspec := filepath.Base(filepath.Dir(p)) == "vspec" && strings.HasSuffix(n, "_verif.go") && !strings.HasSuffix(n, "_test.go")
		if (isVspec || strings.HasPrefix(n, "zz_")) && strings.HasSuffix(n, "_verif.go") && !strings.Contains(n, "govc_generated") {
			rel, _ := filepath.Rel(repoDir, filepath.Dir(p))
			pp := ModulePath
			if rel != "." {
				pp += "/" + filepath.ToSlash(rel)
			}
			files = append(files, specFile{Path: p, PkgPath: pp, Dir: filepath.Dir(p)})
		}
		return nil
	})
	if err != nil {
		return nil, err
	}
	overlay := map[string][]byte{}
	// dependency specs: overlaid into the vspec package
	replaySpecsDir = filepath.Join(verifDir, "specs")
	specs, _ := filepath.Glob(filepath.Join(verifDir, "specs", "*.go"))
	sort.Strings(specs)
	vdir := filepath.Join(repoDir, "internal", "vspec")
	for _, s := range specs {
		src, err := os.ReadFile(s)
		if err != nil {
			return nil, err
		}
		dst := filepath.Join(vdir, "zz_ext_"+strings.TrimSuffix(filepath.Base(s), ".go")+"_verif.go")
		overlay[dst] = src
		files = append(files, specFile{Path: s, PkgPath: VspecPath, Dir: vdir})
	}
	cs, err := ExtractContracts(files)
	if err != nil {
		return nil, err
	}
	for k, v := range cs.Overlay {
		overlay[k] = v
	}
	e.Contracts = cs
	if os.Getenv("GOVC_DUMP_GEN") != "" {
		for k, v := range cs.Overlay {
			fmt.Fprintf(os.Stderr, "=== %s\n%s\n", k, numbered(string(v)))
		}
	}
	cfg := &packages.Config{
		Mode:       packages.LoadAllSyntax,
		Dir:        repoDir,
		BuildFlags: []string{"-tags=verif"},
		Overlay:    overlay,
		Env:        append(os.Environ(), "GOFLAGS=-mod=mod", "GOPROXY=off", "GOSUMDB=off", "GOTOOLCHAIN=local"),
	}
	pkgs, err := packages.Load(cfg, "./...")
	if err != nil {
		return nil, err
	}
	var errs []string
	packages.Visit(pkgs, nil, func(p *packages.Package) {
		for _, er := range p.Errors {
			errs = append(errs, er.Error())
		}
	})
	if len(errs) > 0 {
		if len(errs) > 30 {
			errs = errs[:30]
		}
		return nil, fmt.Errorf("load/type errors (contracts are type-checked Go):\n  %s", strings.Join(errs, "\n  "))
	}
	e.Pkgs = pkgs
	prog, spkgs := ssautil.AllPackages(pkgs, ssa.GlobalDebug|ssa.InstantiateGenerics)
	prog.Build()
	e.Prog = prog
	e.Fset = prog.Fset
	for _, sp := range spkgs {
		if sp != nil {
			e.SSAPkgs[sp.Pkg.Path()] = sp
		}
	}
	for _, sp := range prog.AllPackages() {
		e.SSAPkgs[sp.Pkg.Path()] = sp
	}
	for fn := range ssautil.AllFunctions(prog) {
		if fn.Synthetic != "" && fn.Origin() == nil && !strings.HasPrefix(fn.Synthetic, "package initializer") {
			continue
		}
		if fn.Origin() != nil {
			continue
		}
		e.FnByKey[fn.String()] = fn
	}
	e.scanGlobals()
	return e, nil
}

// scanGlobals records, for package-level variables, a constant initialiser when the only
// store to the variable in the whole program is a constant store in a package initialiser.
func (e *Engine) scanGlobals() {
	count := map[*ssa.Global]int{}
	for fn := range ssautil.AllFunctions(e.Prog) {
		isInit := fn.Name() == "init" && fn.Synthetic != ""
		for _, b := range fn.Blocks {
			for _, ins := range b.Instrs {
				st, ok := ins.(*ssa.Store)
				if !ok {
					continue
				}
				g, ok := st.Addr.(*ssa.Global)
				if !ok {
					continue
				}
				count[g]++
				if !isInit {
					e.GlobalMulti[g] = true
					continue
				}
				if c, ok := st.Val.(*ssa.Const); ok {
					e.GlobalInit[g] = c
				} else {
					e.GlobalInit[g] = st.Val
				}
			}
		}
	}
	for g, n := range count {
		if n > 1 {
			e.GlobalMulti[g] = true
		}
	}
}

// moduleStructs lists the named struct types declared in the module under verification (sorted by name).
func (e *Engine) moduleStructs() []*types.Named {
	if e.modStructs != nil {
		return e.modStructs
	}
	var out []*types.Named
	var paths []string
	for p := range e.SSAPkgs {
		if strings.HasPrefix(p, ModulePath) {
			paths = append(paths, p)
		}
	}
	sort.Strings(paths)
	for _, p := range paths {
		sc := e.SSAPkgs[p].Pkg.Scope()
		for _, n := range sc.Names() {
			tn, ok := sc.Lookup(n).(*types.TypeName)
			if !ok || tn.IsAlias() {
				continue
			}
			nt, ok := tn.Type().(*types.Named)
			if !ok || nt.TypeParams().Len() > 0 {
				continue
			}
			if _, ok := nt.Underlying().(*types.Struct); ok {
				out = append(out, nt)
			}
		}
	}
	e.modStructs = out
	return out
}

func (e *Engine) TypeID(t types.Type) int {
	k := types.TypeString(t, nil)
	if id, ok := e.typeIDs[k]; ok {
		return id
	}
	id := len(e.typeIDs) + 1
	e.typeIDs[k] = id
	e.typeByID = append(e.typeByID, t)
	return id
}

func (e *Engine) pos(p token.Pos) string {
	if !p.IsValid() {
		return "?"
	}
	ps := e.Fset.Position(p)
	rel, err := filepath.Rel(e.RepoDir, ps.Filename)
	if err != nil || strings.HasPrefix(rel, "..") {
		rel = filepath.Base(ps.Filename)
	}
	return fmt.Sprintf("%s:%d", rel, ps.Line)
}

// IsRepoFn reports whether fn is defined in the module under verification.
func IsRepoFn(fn *ssa.Function) bool {
	if fn == nil {
		return false
	}
	if fn.Pkg != nil {
		return strings.HasPrefix(fn.Pkg.Pkg.Path(), ModulePath)
	}
	if o := fn.Origin(); o != nil && o.Pkg != nil {
		return strings.HasPrefix(o.Pkg.Pkg.Path(), ModulePath)
	}
	if fn.Parent() != nil {
		return IsRepoFn(fn.Parent())
	}
	return false
}

// toggleRecv turns "(pkg.T).M" into "(*pkg.T).M" and back.
func toggleRecv(key string) string {
	if strings.HasPrefix(key, "(*") {
		return "(" + key[2:]
	}
	if strings.HasPrefix(key, "(") {
		return "(*" + key[1:]
	}
	return ""
}

// ContractFor finds the contract of fn; a contract written for the value-receiver form of a method also
// applies when the method now has a pointer receiver (and the contract's receiver is then the pointee).
func (e *Engine) ContractFor(fn *ssa.Function) (*Contract, bool) {
	k := FnKey(fn)
	if ct := e.Contracts.ByKey[k]; ct != nil {
		return ct, false
	}
	if t := toggleRecv(k); t != "" && strings.HasPrefix(k, "(*") {
		if ct := e.Contracts.ByKey[t]; ct != nil && ct.Kind == "func" {
			return ct, true
		}
	}
	return nil, false
}

// FunctionFor finds the function a contract key denotes (tolerating a value receiver turned pointer receiver).
func (e *Engine) FunctionFor(key string) (*ssa.Function, bool) {
	if fn := e.FnByKey[key]; fn != nil {
		return fn, false
	}
	if t := toggleRecv(key); t != "" && !strings.HasPrefix(key, "(*") {
		if fn := e.FnByKey[t]; fn != nil {
			return fn, true
		}
	}
	return nil, false
}
