package govc

// Term DAG for SMT-LIB generation with light-weight simplification and an
// interval analysis on Int terms (used to avoid emitting `mod 2^w` wrappers
// where a Go integer operation provably does not wrap).

import (
	"fmt"
	"math/big"
	"sort"
	"strings"
)

type Sort string

const (
	SInt  Sort = "Int"
	SBool Sort = "Bool"
	SB    Sort = "Seq$B" // byte strings (string, [N]byte, contents of []byte regions)
	SSl   Sort = "Sl"    // slice header
	SIf   Sort = "If"    // interface value
)

func ArraySort(idx, elem Sort) Sort { return Sort("(Array " + string(idx) + " " + string(elem) + ")") }

type Term struct {
	id    int
	op    string // SMT operator / function symbol / "const" / "int" / "var"
	args  []*Term
	sort  Sort
	name  string   // for const / var
	ival  *big.Int // for int literals
	lo    *big.Int // interval for Int terms (nil = unknown)
	hi    *big.Int
	bound bool // contains a bound variable
	// quantifier
	qvars []*Term
	pats  [][]*Term
}

type TermFactory struct {
	allocSeq map[int]int // reference terms returned by allocations -> allocation order
	allocCtr int
	next   int
	hash   map[string]*Term
	consts []*Term          // declared constants in order
	funs   map[string]string // uninterpreted function declarations name -> decl text
	funOrd []string
	axioms []string // extra global assertions (text)
	declared map[int]bool
	seqs     map[string]SeqInfo
	seqOrd   []string
	dtypes   map[string]string // datatype name -> declaration
	dtOrd    []string
	declOrd  []string
	unfold   map[int]*Term // application of a defined specification function -> its unfolded body
	ranges []*Term  // global range facts (Bool terms) asserted for typed constants / loads
	fresh  int
	hintPair map[int][2]*Term // cut hints: encoded sequence equality -> the two sequences it compares
}

func NewFactory() *TermFactory {
	return &TermFactory{hintPair: map[int][2]*Term{}, allocSeq: map[int]int{}, hash: map[string]*Term{}, funs: map[string]string{}, declared: map[int]bool{}, seqs: map[string]SeqInfo{}, dtypes: map[string]string{}, unfold: map[int]*Term{}}
}

func (f *TermFactory) key(op string, sort Sort, name string, args []*Term) string {
	var sb strings.Builder
	sb.WriteString(op)
	sb.WriteByte('|')
	sb.WriteString(string(sort))
	sb.WriteByte('|')
	sb.WriteString(name)
	for _, a := range args {
		fmt.Fprintf(&sb, "|%d", a.id)
	}
	return sb.String()
}

func (f *TermFactory) mk(op string, sort Sort, name string, args ...*Term) *Term {
	k := f.key(op, sort, name, args)
	if t, ok := f.hash[k]; ok {
		return t
	}
	f.next++
	t := &Term{id: f.next, op: op, args: args, sort: sort, name: name}
	for _, a := range args {
		if a.bound {
			t.bound = true
		}
	}
	f.hash[k] = t
	return t
}

func bi(x int64) *big.Int { return big.NewInt(x) }

func pow2(k uint) *big.Int { return new(big.Int).Lsh(big.NewInt(1), k) }

func (f *TermFactory) Int(x int64) *Term { return f.IntB(big.NewInt(x)) }

func (f *TermFactory) IntB(x *big.Int) *Term {
	t := f.mk("int", SInt, x.String())
	if t.ival == nil {
		t.ival = new(big.Int).Set(x)
		t.lo = t.ival
		t.hi = t.ival
	}
	return t
}

func (f *TermFactory) True() *Term  { return f.mk("true", SBool, "") }
func (f *TermFactory) False() *Term { return f.mk("false", SBool, "") }
func (f *TermFactory) Bool(b bool) *Term {
	if b {
		return f.True()
	}
	return f.False()
}

// Const declares (once) a free constant.
func (f *TermFactory) Const(name string, sort Sort) *Term {
	t := f.mk("const", sort, name)
	if !f.declared[t.id] {
		f.declared[t.id] = true
		f.consts = append(f.consts, t)
	}
	return t
}

// Fresh returns a new free constant with a unique name.
func (f *TermFactory) Fresh(prefix string, sort Sort) *Term {
	f.fresh++
	name := fmt.Sprintf("%s!%d", sanitize(prefix), f.fresh)
	t := f.mk("const", sort, name)
	f.declared[t.id] = true
	f.consts = append(f.consts, t)
	return t
}

// BoundVar creates a variable for use under a quantifier.
func (f *TermFactory) BoundVar(prefix string, sort Sort) *Term {
	f.fresh++
	name := fmt.Sprintf("%s?%d", sanitize(prefix), f.fresh)
	t := f.mk("var", sort, name)
	t.bound = true
	return t
}

func sanitize(s string) string {
	var sb strings.Builder
	for _, r := range s {
		switch {
		case r >= 'a' && r <= 'z', r >= 'A' && r <= 'Z', r >= '0' && r <= '9', r == '_', r == '.', r == '$':
			sb.WriteRune(r)
		default:
			sb.WriteByte('_')
		}
	}
	if sb.Len() == 0 {
		return "x"
	}
	return sb.String()
}

// SetRange records that the Int term t always lies in [lo,hi]; the fact is
// asserted globally (it must be a type invariant of the value t denotes).
func (f *TermFactory) SetRange(t *Term, lo, hi *big.Int) {
	if t.sort != SInt || t.ival != nil {
		return
	}
	changed := false
	if lo != nil && (t.lo == nil || t.lo.Cmp(lo) < 0) {
		t.lo = lo
		changed = true
	}
	if hi != nil && (t.hi == nil || t.hi.Cmp(hi) > 0) {
		t.hi = hi
		changed = true
	}
	if changed && !t.bound {
		var c []*Term
		if lo != nil {
			c = append(c, f.mk("<=", SBool, "", f.IntB(lo), t))
		}
		if hi != nil {
			c = append(c, f.mk("<=", SBool, "", t, f.IntB(hi)))
		}
		f.ranges = append(f.ranges, f.And(c...))
	}
}

// DeclareFun registers an uninterpreted function.
func (f *TermFactory) DeclareFun(name string, args []Sort, res Sort) {
	if _, ok := f.funs[name]; ok {
		return
	}
	as := make([]string, len(args))
	for i, a := range args {
		as[i] = string(a)
	}
	f.funs[name] = fmt.Sprintf("(declare-fun %s (%s) %s)", name, strings.Join(as, " "), res)
	f.funOrd = append(f.funOrd, name)
}

func (f *TermFactory) App(fn string, sort Sort, args ...*Term) *Term {
	return f.mk(fn, sort, "", args...)
}

// ---- boolean ----

func (f *TermFactory) Not(a *Term) *Term {
	switch a.op {
	case "true":
		return f.False()
	case "false":
		return f.True()
	case "not":
		return a.args[0]
	}
	return f.mk("not", SBool, "", a)
}

func (f *TermFactory) And(as ...*Term) *Term {
	var out []*Term
	seen := map[int]bool{}
	for _, a := range as {
		if a == nil {
			continue
		}
		switch a.op {
		case "true":
			continue
		case "false":
			return f.False()
		case "and":
			for _, b := range a.args {
				if !seen[b.id] {
					seen[b.id] = true
					out = append(out, b)
				}
			}
			continue
		}
		if !seen[a.id] {
			seen[a.id] = true
			out = append(out, a)
		}
	}
	if len(out) == 0 {
		return f.True()
	}
	if len(out) == 1 {
		return out[0]
	}
	return f.mk("and", SBool, "", out...)
}

func (f *TermFactory) Or(as ...*Term) *Term {
	var out []*Term
	seen := map[int]bool{}
	for _, a := range as {
		switch a.op {
		case "false":
			continue
		case "true":
			return f.True()
		case "or":
			for _, b := range a.args {
				if !seen[b.id] {
					seen[b.id] = true
					out = append(out, b)
				}
			}
			continue
		}
		if !seen[a.id] {
			seen[a.id] = true
			out = append(out, a)
		}
	}
	if len(out) == 0 {
		return f.False()
	}
	if len(out) == 1 {
		return out[0]
	}
	return f.mk("or", SBool, "", out...)
}

func (f *TermFactory) Implies(a, b *Term) *Term {
	if a.op == "true" {
		return b
	}
	if a.op == "false" || b.op == "true" {
		return f.True()
	}
	if b.op == "false" {
		return f.Not(a)
	}
	return f.mk("=>", SBool, "", a, b)
}

func (f *TermFactory) Ite(c, a, b *Term) *Term {
	if c.op == "true" {
		return a
	}
	if c.op == "false" {
		return b
	}
	if a == b {
		return a
	}
	if a.sort == SBool {
		if a.op == "true" && b.op == "false" {
			return c
		}
		if a.op == "false" && b.op == "true" {
			return f.Not(c)
		}
		if a.op == "true" {
			return f.Or(c, b)
		}
		if b.op == "false" {
			return f.And(c, a)
		}
		if a.op == "false" {
			return f.And(f.Not(c), b)
		}
		if b.op == "true" {
			return f.Or(f.Not(c), a)
		}
	}
	t := f.mk("ite", a.sort, "", c, a, b)
	if a.sort == SInt && t.lo == nil && t.hi == nil {
		if a.lo != nil && b.lo != nil {
			t.lo = minB(a.lo, b.lo)
		}
		if a.hi != nil && b.hi != nil {
			t.hi = maxB(a.hi, b.hi)
		}
	}
	return t
}

func minB(a, b *big.Int) *big.Int {
	if a.Cmp(b) <= 0 {
		return a
	}
	return b
}
func maxB(a, b *big.Int) *big.Int {
	if a.Cmp(b) >= 0 {
		return a
	}
	return b
}

func (f *TermFactory) Eq(a, b *Term) *Term {
	if a == b {
		return f.True()
	}
	if a.sort != b.sort {
		panic(fmt.Sprintf("Eq sort mismatch %s vs %s (%s / %s)", a.sort, b.sort, f.Show(a), f.Show(b)))
	}
	if a.ival != nil && b.ival != nil {
		return f.Bool(a.ival.Cmp(b.ival) == 0)
	}
	if a.sort == SInt {
		if a.ival == nil && b.ival == nil {
			ba, oa := splitOff(a)
			bb, ob := splitOff(b)
			if ba == bb {
				return f.Bool(oa.Cmp(ob) == 0)
			}
		}
		if a.hi != nil && b.lo != nil && a.hi.Cmp(b.lo) < 0 {
			return f.False()
		}
		if b.hi != nil && a.lo != nil && b.hi.Cmp(a.lo) < 0 {
			return f.False()
		}
	}
	if a.sort == SBool {
		if a.op == "true" {
			return b
		}
		if b.op == "true" {
			return a
		}
		if a.op == "false" {
			return f.Not(b)
		}
		if b.op == "false" {
			return f.Not(a)
		}
	}
	if a.id > b.id {
		a, b = b, a
	}
	return f.mk("=", SBool, "", a, b)
}

// splitOff decomposes t into base + constant offset.
func splitOff(t *Term) (*Term, *big.Int) {
	if t.op == "+" && len(t.args) == 2 && t.args[1].ival != nil {
		b, o := splitOff(t.args[0])
		return b, new(big.Int).Add(o, t.args[1].ival)
	}
	return t, new(big.Int)
}

func (f *TermFactory) Le(a, b *Term) *Term {
	if a == b {
		return f.True()
	}
	if a.ival == nil && b.ival == nil {
		ba, oa := splitOff(a)
		bb, ob := splitOff(b)
		if ba == bb {
			return f.Bool(oa.Cmp(ob) <= 0)
		}
	}
	if a.hi != nil && b.lo != nil && a.hi.Cmp(b.lo) <= 0 {
		return f.True()
	}
	if a.lo != nil && b.hi != nil && a.lo.Cmp(b.hi) > 0 {
		return f.False()
	}
	return f.mk("<=", SBool, "", a, b)
}

func (f *TermFactory) Lt(a, b *Term) *Term {
	if a == b {
		return f.False()
	}
	if a.ival == nil && b.ival == nil {
		ba, oa := splitOff(a)
		bb, ob := splitOff(b)
		if ba == bb {
			return f.Bool(oa.Cmp(ob) < 0)
		}
	}
	if a.hi != nil && b.lo != nil && a.hi.Cmp(b.lo) < 0 {
		return f.True()
	}
	if a.lo != nil && b.hi != nil && a.lo.Cmp(b.hi) >= 0 {
		return f.False()
	}
	return f.mk("<", SBool, "", a, b)
}
func (f *TermFactory) Ge(a, b *Term) *Term { return f.Le(b, a) }
func (f *TermFactory) Gt(a, b *Term) *Term { return f.Lt(b, a) }

// ---- integer arithmetic (mathematical; wrapping is applied by callers) ----

func addB(a, b *big.Int) *big.Int {
	if a == nil || b == nil {
		return nil
	}
	return new(big.Int).Add(a, b)
}
func subB(a, b *big.Int) *big.Int {
	if a == nil || b == nil {
		return nil
	}
	return new(big.Int).Sub(a, b)
}

func (f *TermFactory) Add(a, b *Term) *Term {
	if a.ival != nil && b.ival != nil {
		return f.IntB(new(big.Int).Add(a.ival, b.ival))
	}
	if a.ival != nil && a.ival.Sign() == 0 {
		return b
	}
	if b.ival != nil && b.ival.Sign() == 0 {
		return a
	}
	// (x + c1) + c2
	if b.ival != nil && a.op == "+" && len(a.args) == 2 && a.args[1].ival != nil {
		return f.Add(a.args[0], f.IntB(new(big.Int).Add(a.args[1].ival, b.ival)))
	}
	if a.ival != nil {
		a, b = b, a
	}
	t := f.mk("+", SInt, "", a, b)
	if t.lo == nil && t.hi == nil {
		t.lo = addB(a.lo, b.lo)
		t.hi = addB(a.hi, b.hi)
	}
	return t
}

func (f *TermFactory) Sub(a, b *Term) *Term {
	if a == b {
		return f.Int(0)
	}
	if b.ival != nil {
		return f.Add(a, f.IntB(new(big.Int).Neg(b.ival)))
	}
	// (x + c) - x
	if a.op == "+" && len(a.args) == 2 && a.args[0] == b {
		return a.args[1]
	}
	t := f.mk("-", SInt, "", a, b)
	if t.lo == nil && t.hi == nil {
		t.lo = subB(a.lo, b.hi)
		t.hi = subB(a.hi, b.lo)
	}
	return t
}

func (f *TermFactory) Neg(a *Term) *Term { return f.Sub(f.Int(0), a) }

func (f *TermFactory) Mul(a, b *Term) *Term {
	if a.ival != nil && b.ival != nil {
		return f.IntB(new(big.Int).Mul(a.ival, b.ival))
	}
	if b.ival != nil {
		a, b = b, a
	}
	if a.ival != nil {
		if a.ival.Sign() == 0 {
			return f.Int(0)
		}
		if a.ival.Cmp(bi(1)) == 0 {
			return b
		}
	}
	t := f.mk("*", SInt, "", a, b)
	if t.lo == nil && t.hi == nil && a.lo != nil && a.hi != nil && b.lo != nil && b.hi != nil {
		c := []*big.Int{
			new(big.Int).Mul(a.lo, b.lo), new(big.Int).Mul(a.lo, b.hi),
			new(big.Int).Mul(a.hi, b.lo), new(big.Int).Mul(a.hi, b.hi)}
		lo, hi := c[0], c[0]
		for _, x := range c[1:] {
			lo = minB(lo, x)
			hi = maxB(hi, x)
		}
		t.lo, t.hi = lo, hi
	}
	return t
}

// Div is SMT-LIB `div` (floor for positive divisor). Callers handle signs.
func (f *TermFactory) Div(a, b *Term) *Term {
	if a.ival != nil && b.ival != nil && b.ival.Sign() > 0 {
		q := new(big.Int)
		m := new(big.Int)
		q.DivMod(a.ival, b.ival, m) // Euclidean
		return f.IntB(q)
	}
	if b.ival != nil && b.ival.Cmp(bi(1)) == 0 {
		return a
	}
	if b.ival != nil && b.ival.Sign() > 0 && a.lo != nil && a.hi != nil && a.lo.Sign() >= 0 && a.hi.Cmp(b.ival) < 0 {
		return f.Int(0)
	}
	// x div 2^k (k > 8) is written as a chain of divisions by 256 (then by the remaining power of two):
	// floor(floor(x/a)/b) = floor(x/(ab)); the chain lets byte extractions at different shifts share
	// linear definitional constraints.
	if b.ival != nil && b.ival.Sign() > 0 && b.ival.BitLen() > 9 && b.ival.BitLen()-1 == int(b.ival.TrailingZeroBits()) {
		k := b.ival.TrailingZeroBits()
		r := a
		for ; k >= 8; k -= 8 {
			r = f.Div(r, f.Int(256))
		}
		if k > 0 {
			r = f.Div(r, f.IntB(pow2(k)))
		}
		return r
	}
	t := f.mk("div", SInt, "", a, b)
	if t.lo == nil && t.hi == nil && b.ival != nil && b.ival.Sign() > 0 {
		if a.lo != nil {
			q, m := new(big.Int), new(big.Int)
			q.DivMod(a.lo, b.ival, m)
			t.lo = q
		}
		if a.hi != nil {
			q, m := new(big.Int), new(big.Int)
			q.DivMod(a.hi, b.ival, m)
			t.hi = q
		}
	}
	return t
}

// Mod is SMT-LIB `mod` (result in [0,|b|)).
func (f *TermFactory) Mod(a, b *Term) *Term {
	if a.ival != nil && b.ival != nil && b.ival.Sign() > 0 {
		q := new(big.Int)
		m := new(big.Int)
		q.DivMod(a.ival, b.ival, m)
		return f.IntB(m)
	}
	if b.ival != nil && b.ival.Sign() > 0 && a.lo != nil && a.hi != nil && a.lo.Sign() >= 0 && a.hi.Cmp(b.ival) < 0 {
		return a
	}
	t := f.mk("mod", SInt, "", a, b)
	if t.lo == nil && t.hi == nil && b.ival != nil && b.ival.Sign() > 0 {
		t.lo = bi(0)
		t.hi = new(big.Int).Sub(b.ival, bi(1))
		if a.lo != nil && a.lo.Sign() >= 0 && a.hi != nil && a.hi.Cmp(t.hi) < 0 {
			t.hi = a.hi
		}
	}
	return t
}

// Wrap reduces t into the range of a Go integer type of the given width.
func (f *TermFactory) Wrap(t *Term, bits uint, signed bool) *Term {
	var lo, hi *big.Int
	if signed {
		lo = new(big.Int).Neg(pow2(bits - 1))
		hi = new(big.Int).Sub(pow2(bits-1), bi(1))
	} else {
		lo = bi(0)
		hi = new(big.Int).Sub(pow2(bits), bi(1))
	}
	if t.lo != nil && t.hi != nil && t.lo.Cmp(lo) >= 0 && t.hi.Cmp(hi) <= 0 {
		return t
	}
	if !signed {
		return f.Mod(t, f.IntB(pow2(bits)))
	}
	// ((t + 2^(w-1)) mod 2^w) - 2^(w-1)
	h := f.IntB(pow2(bits - 1))
	return f.Sub(f.Mod(f.Add(t, h), f.IntB(pow2(bits))), h)
}

// ---- arrays ----

func (f *TermFactory) Select(a, i *Term) *Term {
	es := elemSort(a.sort)
	// read-over-write simplification when indices are syntactically equal / distinct literals
	for a.op == "store" {
		if a.args[1] == i {
			return a.args[2]
		}
		if a.args[1].ival != nil && i.ival != nil {
			a = a.args[0]
			continue
		}
		// two references returned by different allocations are different objects
		if sa, ok := f.allocSeq[a.args[1].id]; ok {
			if sb, ok := f.allocSeq[i.id]; ok && sa != sb {
				a = a.args[0]
				continue
			}
		}
		break
	}
	return f.mk("select", es, "", a, i)
}

func (f *TermFactory) Store(a, i, v *Term) *Term {
	if v.sort != elemSort(a.sort) {
		panic(fmt.Sprintf("Store sort mismatch: array %s value %s", a.sort, v.sort))
	}
	if a.op == "store" && a.args[1] == i {
		a = a.args[0]
	}
	return f.mk("store", a.sort, "", a, i, v)
}

func elemSort(arr Sort) Sort {
	s := string(arr)
	if !strings.HasPrefix(s, "(Array ") {
		panic("not an array sort: " + s)
	}
	s = s[len("(Array ") : len(s)-1]
	// split index sort and element sort at top level
	depth := 0
	for i := 0; i < len(s); i++ {
		switch s[i] {
		case '(':
			depth++
		case ')':
			depth--
		case ' ':
			if depth == 0 {
				return Sort(s[i+1:])
			}
		}
	}
	panic("bad array sort " + string(arr))
}

func (f *TermFactory) Forall(vars []*Term, body *Term, pats ...[]*Term) *Term {
	if body.op == "true" {
		return body
	}
	f.next++
	t := &Term{id: f.next, op: "forall", args: []*Term{body}, sort: SBool, qvars: vars, pats: pats}
	// bound flag: body may contain other bound vars (nested); compute by scanning
	t.bound = f.hasFreeBound(body, vars)
	return t
}

// mentions reports whether term t contains the (bound) variable v.
func (f *TermFactory) mentions(t, v *Term) bool {
	seen := map[int]bool{}
	var walk func(t *Term) bool
	walk = func(t *Term) bool {
		if t == v {
			return true
		}
		if !t.bound || seen[t.id] {
			return false
		}
		seen[t.id] = true
		for _, a := range t.args {
			if walk(a) {
				return true
			}
		}
		return false
	}
	return walk(t)
}

func (f *TermFactory) Exists(vars []*Term, body *Term) *Term {
	f.next++
	t := &Term{id: f.next, op: "exists", args: []*Term{body}, sort: SBool, qvars: vars}
	t.bound = f.hasFreeBound(body, vars)
	return t
}

func (f *TermFactory) hasFreeBound(t *Term, bound []*Term) bool {
	if !t.bound {
		return false
	}
	seen := map[int]bool{}
	var walk func(t *Term, env map[int]bool) bool
	walk = func(t *Term, env map[int]bool) bool {
		if !t.bound {
			return false
		}
		if t.op == "var" {
			return !env[t.id]
		}
		if t.op == "forall" || t.op == "exists" {
			env2 := map[int]bool{}
			for k := range env {
				env2[k] = true
			}
			for _, v := range t.qvars {
				env2[v.id] = true
			}
			return walk(t.args[0], env2)
		}
		if seen[t.id] {
			return false
		}
		for _, a := range t.args {
			if walk(a, env) {
				return true
			}
		}
		seen[t.id] = true
		return false
	}
	env := map[int]bool{}
	for _, v := range bound {
		env[v.id] = true
	}
	return walk(t, env)
}

// ---- printing ----

// Printer emits define-funs for shared ground subterms.
type Printer struct {
	f       *TermFactory
	defined map[int]string
	out     *strings.Builder
	refs    map[int]int
}

func (f *TermFactory) Show(t *Term) string {
	p := &Printer{f: f, defined: map[int]string{}, out: &strings.Builder{}, refs: map[int]int{}}
	return p.inline(t, 0)
}

func (p *Printer) countRefs(t *Term) {
	p.refs[t.id]++
	if p.refs[t.id] > 1 {
		return
	}
	for _, a := range t.args {
		p.countRefs(a)
	}
	for _, pat := range t.pats {
		for _, a := range pat {
			p.countRefs(a)
		}
	}
}

func atom(t *Term) string {
	switch t.op {
	case "int":
		if t.ival.Sign() < 0 {
			return "(- " + new(big.Int).Neg(t.ival).String() + ")"
		}
		return t.ival.String()
	case "true", "false":
		return t.op
	case "const", "var":
		return "|" + t.name + "|"
	}
	return ""
}

func (p *Printer) inline(t *Term, depth int) string {
	if s := atom(t); s != "" {
		return s
	}
	if n, ok := p.defined[t.id]; ok {
		return n
	}
	switch t.op {
	case "forall", "exists":
		var vs []string
		for _, v := range t.qvars {
			vs = append(vs, fmt.Sprintf("(|%s| %s)", v.name, v.sort))
		}
		body := p.inline(t.args[0], depth+1)
		if len(t.pats) > 0 {
			var ps []string
			for _, pat := range t.pats {
				var es []string
				for _, e := range pat {
					es = append(es, p.inline(e, depth+1))
				}
				ps = append(ps, ":pattern ("+strings.Join(es, " ")+")")
			}
			body = "(! " + body + " " + strings.Join(ps, " ") + ")"
		}
		return fmt.Sprintf("(%s (%s) %s)", t.op, strings.Join(vs, " "), body)
	}
	if len(t.args) == 0 {
		return t.op
	}
	parts := make([]string, 0, len(t.args)+1)
	parts = append(parts, t.op)
	for _, a := range t.args {
		parts = append(parts, p.inline(a, depth+1))
	}
	return "(" + strings.Join(parts, " ") + ")"
}

// Define emits define-fun lines for all shared / large ground subterms of the roots
// and returns the text for each root.
func (p *Printer) Define(roots ...*Term) []string {
	for _, r := range roots {
		p.countRefs(r)
	}
	var visit func(t *Term)
	visited := map[int]bool{}
	visit = func(t *Term) {
		if visited[t.id] {
			return
		}
		visited[t.id] = true
		for _, a := range t.args {
			visit(a)
		}
		for _, pat := range t.pats {
			for _, a := range pat {
				visit(a)
			}
		}
		if t.bound || atom(t) != "" || len(t.args) == 0 {
			return
		}
		if _, ok := p.defined[t.id]; ok {
			return
		}
		if p.refs[t.id] > 1 || t.op == "store" || t.op == "ite" {
			name := fmt.Sprintf("t%d", t.id)
			body := p.inline(t, 0)
			fmt.Fprintf(p.out, "(define-fun %s () %s %s)\n", name, t.sort, body)
			p.defined[t.id] = name
		}
	}
	res := make([]string, len(roots))
	for i, r := range roots {
		visit(r)
		res[i] = p.inline(r, 0)
	}
	return res
}

func sortedKeys(m map[string]string) []string {
	ks := make([]string, 0, len(m))
	for k := range m {
		ks = append(ks, k)
	}
	sort.Strings(ks)
	return ks
}
