package govc

// Axiomatic sequence theory (one instantiation per element sort) and the
// fixed datatypes of the memory model.

import (
	"fmt"
	"math/big"
	"strings"
)

// SeqInfo describes one instantiation of the sequence template.
type SeqInfo struct {
	Tag  string // suffix of function names
	Elem Sort
	Byte bool // elements are bytes (0..255)
}

func SeqSort(tag string) Sort { return Sort("Seq$" + tag) }

const preludeFixed = `
(declare-datatypes ((Sl 0)) (((mkSl (sl.ref Int) (sl.off Int) (sl.len Int) (sl.cap Int)))))
(declare-datatypes ((If 0)) (((mkIf (if.typ Int) (if.val Int)))))
`

// seqTemplate: $X tag, $E element sort.
const seqTemplate = `
(declare-sort Seq$X 0)
(declare-fun len$X (Seq$X) Int)
(declare-fun at$X (Seq$X Int) $E)
(assert (forall ((s Seq$X)) (! (>= (len$X s) 0) :pattern ((len$X s)))))
(declare-const empty$X Seq$X)
(assert (= (len$X empty$X) 0))
(declare-fun cat$X (Seq$X Seq$X) Seq$X)
(assert (forall ((a Seq$X) (b Seq$X)) (! (= (len$X (cat$X a b)) (+ (len$X a) (len$X b))) :pattern ((cat$X a b)))))
(assert (forall ((a Seq$X) (b Seq$X) (i Int))
  (! (= (at$X (cat$X a b) i) (ite (< i (len$X a)) (at$X a i) (at$X b (- i (len$X a))))) :pattern ((at$X (cat$X a b) i)))))
(declare-fun sub$X (Seq$X Int Int) Seq$X)
(assert (forall ((s Seq$X) (lo Int) (hi Int))
  (! (=> (and (<= 0 lo) (<= lo hi) (<= hi (len$X s))) (= (len$X (sub$X s lo hi)) (- hi lo))) :pattern ((sub$X s lo hi)))))
(assert (forall ((s Seq$X) (lo Int) (hi Int) (i Int))
  (! (=> (and (<= 0 lo) (<= lo hi) (<= hi (len$X s)) (<= 0 i) (< i (- hi lo)))
         (= (at$X (sub$X s lo hi) i) (at$X s (+ lo i)))) :pattern ((at$X (sub$X s lo hi) i)))))
(assert (forall ((s Seq$X) (lo Int) (hi Int) (j Int))
  (! (=> (and (<= 0 lo) (<= lo j) (< j hi) (<= hi (len$X s)))
         (= (at$X s j) (at$X (sub$X s lo hi) (- j lo)))) :pattern ((sub$X s lo hi) (at$X s j)))))
(declare-fun one$X ($E) Seq$X)
(assert (forall ((e $E)) (! (and (= (len$X (one$X e)) 1) (=> $G (= (at$X (one$X e) 0) e))) :pattern ((one$X e)))))
(declare-fun rep$X ($E Int) Seq$X)
(assert (forall ((e $E) (n Int)) (! (=> (<= 0 n) (= (len$X (rep$X e n)) n)) :pattern ((rep$X e n)))))
(assert (forall ((e $E) (n Int) (i Int)) (! (=> (and (<= 0 i) (< i n) $G) (= (at$X (rep$X e n) i) e)) :pattern ((at$X (rep$X e n) i)))))
(declare-fun upd$X (Seq$X Int $E) Seq$X)
(assert (forall ((s Seq$X) (i Int) (e $E)) (! (= (len$X (upd$X s i e)) (len$X s)) :pattern ((upd$X s i e)))))
(assert (forall ((s Seq$X) (i Int) (e $E) (j Int))
  (! (= (at$X (upd$X s i e) j) (ite (and (= i j) (<= 0 i) (< i (len$X s)) $G) e (at$X s j))) :pattern ((at$X (upd$X s i e) j)))))
(declare-fun splice$X (Seq$X Int Seq$X) Seq$X)
(assert (forall ((s Seq$X) (p Int) (t Seq$X)) (! (= (len$X (splice$X s p t)) (len$X s)) :pattern ((splice$X s p t)))))
(assert (forall ((s Seq$X) (p Int) (t Seq$X) (j Int))
  (! (= (at$X (splice$X s p t) j)
        (ite (and (<= 0 p) (<= (+ p (len$X t)) (len$X s)) (<= p j) (< j (+ p (len$X t)))) (at$X t (- j p)) (at$X s j)))
     :pattern ((at$X (splice$X s p t) j)))))
(declare-fun eq$X (Seq$X Seq$X) Bool)
(declare-fun diff$X (Seq$X Seq$X) Int)
(assert (forall ((a Seq$X) (b Seq$X))
  (! (=> (and (= (len$X a) (len$X b))
              (=> (and (<= 0 (diff$X a b)) (< (diff$X a b) (len$X a))) (= (at$X a (diff$X a b)) (at$X b (diff$X a b)))))
         (eq$X a b)) :pattern ((eq$X a b)))))
(assert (forall ((a Seq$X) (b Seq$X)) (! (= (eq$X a b) (= a b)) :pattern ((eq$X a b)))))
(assert (forall ((s Seq$X)) (! (= (sub$X s 0 (len$X s)) s) :pattern ((sub$X s 0 (len$X s))))))
(assert (forall ((s Seq$X) (lo Int)) (! (= (sub$X s lo lo) empty$X) :pattern ((sub$X s lo lo)))))
(assert (forall ((s Seq$X)) (! (= (cat$X empty$X s) s) :pattern ((cat$X empty$X s)))))
(assert (forall ((s Seq$X)) (! (= (cat$X s empty$X) s) :pattern ((cat$X s empty$X)))))
(assert (forall ((a Seq$X) (b Seq$X) (c Seq$X)) (! (= (cat$X (cat$X a b) c) (cat$X a (cat$X b c))) :pattern ((cat$X (cat$X a b) c)))))
(assert (forall ((s Seq$X)) (! (=> (= (len$X s) 0) (= s empty$X)) :pattern ((len$X s)))))
(assert (forall ((a Seq$X) (b Seq$X) (lo Int) (hi Int))
  (! (=> (and (<= 0 lo) (<= lo hi) (<= hi (+ (len$X a) (len$X b))))
      (= (sub$X (cat$X a b) lo hi)
         (ite (<= hi (len$X a)) (sub$X a lo hi)
           (ite (>= lo (len$X a)) (sub$X b (- lo (len$X a)) (- hi (len$X a)))
             (cat$X (sub$X a lo (len$X a)) (sub$X b 0 (- hi (len$X a))))))))
     :pattern ((sub$X (cat$X a b) lo hi)))))
(assert (forall ((s Seq$X) (a Int) (b Int) (c Int) (d Int))
  (! (=> (and (<= 0 a) (<= a b) (<= b (len$X s)) (<= 0 c) (<= c d) (<= d (- b a)))
         (= (sub$X (sub$X s a b) c d) (sub$X s (+ a c) (+ a d))))
     :pattern ((sub$X (sub$X s a b) c d)))))
`

const byteRangeTemplate = `
(assert (forall ((s Seq$X) (i Int)) (! (and (<= 0 (at$X s i)) (< (at$X s i) 256)) :pattern ((at$X s i)))))
`

func seqPrelude(si SeqInfo) string {
	s := seqTemplate
	if si.Byte {
		s += byteRangeTemplate
		s = strings.ReplaceAll(s, "$G", "(and (<= 0 e) (< e 256))")
	} else {
		s = strings.ReplaceAll(s, "$G", "true")
	}
	s = strings.ReplaceAll(s, "$E", string(si.Elem))
	s = strings.ReplaceAll(s, "$X", "$"+si.Tag)
	return s
}

// ---- term constructors over sequences ----

func seqTag(s Sort) string {
	str := string(s)
	if !strings.HasPrefix(str, "Seq$") {
		panic("not a seq sort: " + str)
	}
	return str[4:]
}

func (f *TermFactory) seqElem(s Sort) Sort {
	tag := seqTag(s)
	si, ok := f.seqs[tag]
	if !ok {
		panic("unregistered seq sort " + string(s))
	}
	return si.Elem
}

// RegisterSeq makes sure a sequence instantiation for the element sort exists.
func (f *TermFactory) RegisterSeq(tag string, elem Sort, isByte bool) Sort {
	if f.seqs == nil {
		f.seqs = map[string]SeqInfo{}
	}
	if _, ok := f.seqs[tag]; !ok {
		f.seqs[tag] = SeqInfo{Tag: tag, Elem: elem, Byte: isByte}
		f.seqOrd = append(f.seqOrd, tag)
		f.declOrd = append(f.declOrd, "seq:"+tag)
	}
	return SeqSort(tag)
}

// asList views a sequence term as an explicit list of elements when it is built from
// empty / one / cat / rep-with-literal-count.
func (f *TermFactory) asList(s *Term) ([]*Term, bool) {
	tag := seqTag(s.sort)
	switch s.op {
	case "empty$" + tag:
		return nil, true
	case "one$" + tag:
		return []*Term{s.args[0]}, true
	case "cat$" + tag:
		a, ok := f.asList(s.args[0])
		if !ok {
			return nil, false
		}
		b, ok := f.asList(s.args[1])
		if !ok {
			return nil, false
		}
		return append(append([]*Term{}, a...), b...), true
	case "rep$" + tag:
		if n := s.args[1].ival; n != nil && n.Sign() >= 0 && n.Cmp(bi(128)) <= 0 {
			out := make([]*Term, n.Int64())
			for i := range out {
				out[i] = s.args[0]
			}
			return out, true
		}
	}
	return nil, false
}

func (f *TermFactory) fromList(sort Sort, xs []*Term) *Term {
	r := f.SEmpty(sort)
	for i := len(xs) - 1; i >= 0; i-- {
		r = f.SCat(f.SOne(sort, xs[i]), r)
	}
	return r
}

// byteElem makes sure an element placed into a byte sequence is a byte.
func (f *TermFactory) byteElem(sort Sort, e *Term) *Term {
	if !f.seqs[seqTag(sort)].Byte {
		return e
	}
	if e.lo != nil && e.hi != nil && e.lo.Sign() >= 0 && e.hi.Cmp(bi(255)) <= 0 {
		return e
	}
	return f.Mod(e, f.Int(256))
}

func (f *TermFactory) SLen(s *Term) *Term {
	tag := seqTag(s.sort)
	switch s.op {
	case "ite":
		return f.Ite(s.args[0], f.SLen(s.args[1]), f.SLen(s.args[2]))
	case "empty$" + tag:
		return f.Int(0)
	case "one$" + tag:
		return f.Int(1)
	case "cat$" + tag:
		return f.Add(f.SLen(s.args[0]), f.SLen(s.args[1]))
	case "upd$" + tag, "splice$" + tag:
		return f.SLen(s.args[0])
	case "rep$" + tag:
		if s.args[1].lo != nil && s.args[1].lo.Sign() >= 0 {
			return s.args[1]
		}
	}
	t := f.mk("len$"+tag, SInt, "", s)
	if t.lo == nil {
		t.lo = bi(0)
	}
	return t
}

func (f *TermFactory) SAt(s, i *Term) *Term {
	tag := seqTag(s.sort)
	es := f.seqElem(s.sort)
	if s.op == "ite" {
		return f.Ite(s.args[0], f.SAt(s.args[1], i), f.SAt(s.args[2], i))
	}
	if i.ival != nil && i.ival.Sign() >= 0 {
		// walk right-nested concatenations with literal-length prefixes
		cur := s
		idx := new(big.Int).Set(i.ival)
		for {
			if cur.op == "one$"+tag && idx.Sign() == 0 {
				return cur.args[0]
			}
			if cur.op == "rep$"+tag && cur.args[1].lo != nil && idx.Cmp(cur.args[1].lo) < 0 {
				return cur.args[0]
			}
			if cur.op == "cat$"+tag {
				la := f.SLen(cur.args[0])
				if la.ival != nil {
					if idx.Cmp(la.ival) < 0 {
						cur = cur.args[0]
					} else {
						idx = new(big.Int).Sub(idx, la.ival)
						cur = cur.args[1]
					}
					continue
				}
			}
			break
		}
		if cur != s {
			return f.SAt(cur, f.IntB(idx))
		}
	}
	if s.op == "rep$"+tag && i.lo != nil && i.lo.Sign() >= 0 && i.hi != nil && s.args[1].lo != nil && i.hi.Cmp(s.args[1].lo) < 0 {
		return s.args[0]
	}
	t := f.mk("at$"+tag, es, "", s, i)
	if f.seqs[tag].Byte && t.lo == nil {
		t.lo, t.hi = bi(0), bi(255)
	}
	return t
}

func (f *TermFactory) SEmpty(sort Sort) *Term { return f.mk("empty$"+seqTag(sort), sort, "") }

func (f *TermFactory) SCat(a, b *Term) *Term {
	tag := seqTag(a.sort)
	if a.op == "empty$"+tag {
		return b
	}
	if b.op == "empty$"+tag {
		return a
	}
	// right-associate
	if a.op == "cat$"+tag {
		return f.SCat(a.args[0], f.SCat(a.args[1], b))
	}
	return f.mk("cat$"+tag, a.sort, "", a, b)
}

func (f *TermFactory) SCatN(sort Sort, xs ...*Term) *Term {
	r := f.SEmpty(sort)
	for i := len(xs) - 1; i >= 0; i-- {
		r = f.SCat(xs[i], r)
	}
	return r
}

func (f *TermFactory) SSub(s, lo, hi *Term) *Term {
	tag := seqTag(s.sort)
	if lo == hi {
		return f.SEmpty(s.sort)
	}
	if s.op == "ite" {
		return f.Ite(s.args[0], f.SSub(s.args[1], lo, hi), f.SSub(s.args[2], lo, hi))
	}
	if lo.ival != nil && lo.ival.Sign() == 0 && hi == f.SLen(s) {
		return s
	}
	if s.op == "cat$"+tag {
		la := f.SLen(s.args[0])
		// sub(cat(a, b), 0, len a) = a ; sub(cat(a, b), len a, len a + len b) = b  (syntactic lengths)
		if lo.isZero() && hi == la {
			return s.args[0]
		}
		if lo == la && hi == f.SLen(s) {
			return s.args[1]
		}
		if lo.isZero() && hi == f.SLen(s) {
			return s
		}
	}
	if lo.ival != nil && hi.ival != nil && lo.ival.Sign() >= 0 && lo.ival.Cmp(hi.ival) <= 0 && s.op == "cat$"+tag {
		// literal bounds that fall on segment boundaries of a concatenation with literal-length segments
		segs := f.catSegments(s)
		pos := new(big.Int)
		start, end := -1, -1
		for i, sg := range segs {
			if pos.Cmp(lo.ival) == 0 && start < 0 {
				start = i
			}
			l := f.SLen(sg)
			if l.ival == nil {
				break
			}
			pos = new(big.Int).Add(pos, l.ival)
			if start >= 0 && pos.Cmp(hi.ival) == 0 {
				end = i + 1
				break
			}
			if pos.Cmp(hi.ival) > 0 {
				break
			}
		}
		if start >= 0 && end >= 0 {
			return f.fromSegs(s.sort, segs[start:end])
		}
	}
	if lo.ival != nil && hi.ival != nil && lo.ival.Sign() >= 0 && lo.ival.Cmp(hi.ival) <= 0 {
		if xs, ok := f.asList(s); ok && hi.ival.Cmp(bi(int64(len(xs)))) <= 0 {
			return f.fromList(s.sort, xs[lo.ival.Int64():hi.ival.Int64()])
		}
		// peel a literal-length prefix: sub(cat(a,b), lo, hi) with len(a) literal
		if s.op == "cat$"+tag {
			la := f.SLen(s.args[0])
			if la.ival != nil {
				if lo.ival.Cmp(la.ival) >= 0 {
					return f.SSub(s.args[1], f.IntB(new(big.Int).Sub(lo.ival, la.ival)), f.IntB(new(big.Int).Sub(hi.ival, la.ival)))
				}
				if hi.ival.Cmp(la.ival) <= 0 {
					return f.SSub(s.args[0], lo, hi)
				}
			}
		}
	}
	// sub(sub(s,a,b),c,d) with everything non-negative by intervals and c<=d literal-free: keep
	return f.mk("sub$"+tag, s.sort, "", s, lo, hi)
}

func (f *TermFactory) SOne(sort Sort, e *Term) *Term {
	return f.mk("one$"+seqTag(sort), sort, "", f.byteElem(sort, e))
}

func (f *TermFactory) SRep(sort Sort, e, n *Term) *Term {
	if n.ival != nil && n.ival.Sign() == 0 {
		return f.SEmpty(sort)
	}
	return f.mk("rep$"+seqTag(sort), sort, "", f.byteElem(sort, e), n)
}

func (f *TermFactory) SUpd(s, i, e *Term) *Term {
	e = f.byteElem(s.sort, e)
	if i.ival != nil && i.ival.Sign() >= 0 {
		if xs, ok := f.asList(s); ok && i.ival.Cmp(bi(int64(len(xs)))) < 0 {
			ys := append([]*Term{}, xs...)
			ys[i.ival.Int64()] = e
			return f.fromList(s.sort, ys)
		}
	}
	return f.mk("upd$"+seqTag(s.sort), s.sort, "", s, i, e)
}

func (f *TermFactory) SSplice(s, p, t *Term) *Term {
	if t.op == "empty$"+seqTag(s.sort) {
		return s
	}
	return f.mk("splice$"+seqTag(s.sort), s.sort, "", s, p, t)
}

// catSegments flattens nested concatenations (without unfolding defined symbols).
func (f *TermFactory) catSegments(t *Term) []*Term {
	tag := seqTag(t.sort)
	switch t.op {
	case "empty$" + tag:
		return nil
	case "cat$" + tag:
		return append(f.catSegments(t.args[0]), f.catSegments(t.args[1])...)
	}
	return []*Term{t}
}

// segments flattens a concatenation into its segments.
func (f *TermFactory) segments(t *Term) []*Term {
	tag := seqTag(t.sort)
	if u, ok := f.unfold[t.id]; ok {
		t = u
	}
	switch t.op {
	case "empty$" + tag:
		return nil
	case "cat$" + tag:
		return append(f.segments(t.args[0]), f.segments(t.args[1])...)
	}
	return []*Term{t}
}

// SEq is content equality of sequences. Concatenations are compared segment by segment when their
// segments line up (identical terms, or single elements); the rest is left to the extensionality axiom.
func (f *TermFactory) SEq(a, b *Term) *Term {
	if a == b {
		return f.True()
	}
	if a.sort != b.sort {
		panic(fmt.Sprintf("SEq sort mismatch %s %s", a.sort, b.sort))
	}
	if a.op == "ite" {
		return f.Ite(a.args[0], f.SEq(a.args[1], b), f.SEq(a.args[2], b))
	}
	if b.op == "ite" {
		return f.Ite(b.args[0], f.SEq(a, b.args[1]), f.SEq(a, b.args[2]))
	}
	tag := seqTag(a.sort)
	sa, sb := f.segments(a), f.segments(b)
	if len(sa) > 1 || len(sb) > 1 || f.unfold[a.id] != nil || f.unfold[b.id] != nil {
		var conj []*Term
		i, j := 0, 0
		for i < len(sa) && j < len(sb) {
			x, y := sa[i], sb[j]
			if x == y {
				i++
				j++
				continue
			}
			if x.op == "one$"+tag && y.op == "one$"+tag {
				conj = append(conj, f.Eq(x.args[0], y.args[0]))
				i++
				j++
				continue
			}
			// same literal length: compare the two segments
			lx, ly := f.SLen(x), f.SLen(y)
			if lx.ival != nil && ly.ival != nil && lx.ival.Cmp(ly.ival) == 0 {
				conj = append(conj, f.rawEq(x, y))
				i++
				j++
				continue
			}
			// one segment of literal length against several segments whose literal lengths add up to it
			if lx.ival != nil && ly.ival != nil {
				grouped := false
				if lx.ival.Cmp(ly.ival) > 0 {
					sum := new(big.Int)
					for k := j; k < len(sb); k++ {
						lk := f.SLen(sb[k])
						if lk.ival == nil {
							break
						}
						sum.Add(sum, lk.ival)
						if c := sum.Cmp(lx.ival); c == 0 {
							conj = append(conj, f.rawEq(x, f.fromSegs(a.sort, sb[j:k+1])))
							i++
							j = k + 1
							grouped = true
							break
						} else if c > 0 {
							break
						}
					}
				} else {
					sum := new(big.Int)
					for k := i; k < len(sa); k++ {
						lk := f.SLen(sa[k])
						if lk.ival == nil {
							break
						}
						sum.Add(sum, lk.ival)
						if c := sum.Cmp(ly.ival); c == 0 {
							conj = append(conj, f.rawEq(f.fromSegs(a.sort, sa[i:k+1]), y))
							j++
							i = k + 1
							grouped = true
							break
						} else if c > 0 {
							break
						}
					}
				}
				if grouped {
					continue
				}
			}
			break
		}
		if i > 0 || j > 0 {
			ra, rb := f.fromSegs(a.sort, sa[i:]), f.fromSegs(a.sort, sb[j:])
			if ra != rb {
				conj = append(conj, f.rawEq(ra, rb))
			}
			return f.And(conj...)
		}
	}
	return f.rawEq(a, b)
}

func (f *TermFactory) fromSegs(sort Sort, xs []*Term) *Term {
	r := f.SEmpty(sort)
	for i := len(xs) - 1; i >= 0; i-- {
		r = f.SCat(xs[i], r)
	}
	return r
}

func (f *TermFactory) rawEq(a, b *Term) *Term {
	if a == b {
		return f.True()
	}
	if a.id > b.id {
		a, b = b, a
	}
	return f.mk("eq$"+seqTag(a.sort), SBool, "", a, b)
}

// ---- slice headers / interfaces ----

func (f *TermFactory) MkSl(ref, off, ln, cp *Term) *Term {
	return f.mk("mkSl", SSl, "", ref, off, ln, cp)
}
func (f *TermFactory) slField(fn string, s *Term, idx int, nonneg bool) *Term {
	if s.op == "mkSl" {
		return s.args[idx]
	}
	if s.op == "ite" {
		return f.Ite(s.args[0], f.slField(fn, s.args[1], idx, nonneg), f.slField(fn, s.args[2], idx, nonneg))
	}
	t := f.mk(fn, SInt, "", s)
	if nonneg {
		// type invariant of every Go slice value: ref, offset, length, capacity are non-negative
		f.SetRange(t, bi(0), nil)
	}
	return t
}
func (f *TermFactory) SlRef(s *Term) *Term { return f.slField("sl.ref", s, 0, true) }
func (f *TermFactory) SlOff(s *Term) *Term { return f.slField("sl.off", s, 1, true) }
func (f *TermFactory) SlLen(s *Term) *Term { return f.slField("sl.len", s, 2, true) }
func (f *TermFactory) SlCap(s *Term) *Term { return f.slField("sl.cap", s, 3, true) }

func (f *TermFactory) MkIf(typ, val *Term) *Term { return f.mk("mkIf", SIf, "", typ, val) }
func (f *TermFactory) IfTyp(s *Term) *Term {
	if s.op == "mkIf" {
		return s.args[0]
	}
	if s.op == "ite" {
		return f.Ite(s.args[0], f.IfTyp(s.args[1]), f.IfTyp(s.args[2]))
	}
	return f.mk("if.typ", SInt, "", s)
}
func (f *TermFactory) IfVal(s *Term) *Term {
	if s.op == "mkIf" {
		return s.args[1]
	}
	if s.op == "ite" {
		return f.Ite(s.args[0], f.IfVal(s.args[1]), f.IfVal(s.args[2]))
	}
	return f.mk("if.val", SInt, "", s)
}
