package govc

// Symbolic execution of go/ssa function bodies: block-wise, states merged at
// joins, loops cut at their headers (invariants), calls by contract.

import (
	"fmt"
	"go/constant"
	"go/token"
	"go/types"
	"math/big"
	"strings"

	"golang.org/x/tools/go/ssa"
)

type loopInfo struct {
	header  *ssa.BasicBlock
	ordinal int
	body    map[*ssa.BasicBlock]bool
	backs   map[*ssa.BasicBlock]bool // predecessors that are back-edge sources
	spec    *LoopSpec
	// per-activation
	dec0    *Term
	// automatic variant / lower bound of counting loops
	autoPhi   *ssa.Phi
	autoBound *Term
	autoBoundV ssa.Value
	autoAdd   int64
	autoLower *Term
	mono      []monoRec
}

type frame struct {
	c        *FnCtx
	fn       *ssa.Function
	regs     map[ssa.Value]Value
	args     []Value
	contract *Contract
	loops    map[*ssa.BasicBlock]*loopInfo
	order    []*ssa.BasicBlock
	edge     map[[2]int]*State // (pred index, succ index) -> state on that edge
	rets     []retRec
	isTop    bool
	entry    *State // state at entry of this activation (for Old in loop invariants)
	baseR    *Term  // path condition at activation entry
}

type retRec struct {
	st   *State
	vals []Value
}

// rpo computes a reverse post-order of the CFG ignoring back edges.
func rpo(fn *ssa.Function) []*ssa.BasicBlock {
	if len(fn.Blocks) == 0 {
		return nil
	}
	seen := map[*ssa.BasicBlock]bool{}
	var post []*ssa.BasicBlock
	var dfs func(b *ssa.BasicBlock)
	dfs = func(b *ssa.BasicBlock) {
		seen[b] = true
		for _, s := range b.Succs {
			if s.Dominates(b) { // back edge
				continue
			}
			if !seen[s] {
				dfs(s)
			}
		}
		post = append(post, b)
	}
	dfs(fn.Blocks[0])
	for i, j := 0, len(post)-1; i < j; i, j = i+1, j-1 {
		post[i], post[j] = post[j], post[i]
	}
	return post
}

func findLoops(fn *ssa.Function) map[*ssa.BasicBlock]*loopInfo {
	loops := map[*ssa.BasicBlock]*loopInfo{}
	var headers []*ssa.BasicBlock
	for _, b := range fn.Blocks {
		for _, s := range b.Succs {
			if s.Dominates(b) {
				li := loops[s]
				if li == nil {
					li = &loopInfo{header: s, body: map[*ssa.BasicBlock]bool{s: true}, backs: map[*ssa.BasicBlock]bool{}}
					loops[s] = li
					headers = append(headers, s)
				}
				li.backs[b] = true
				// natural loop: all blocks that reach b without passing s
				var work []*ssa.BasicBlock
				if !li.body[b] {
					li.body[b] = true
					work = append(work, b)
				}
				for len(work) > 0 {
					x := work[len(work)-1]
					work = work[:len(work)-1]
					for _, p := range x.Preds {
						if !li.body[p] {
							li.body[p] = true
							work = append(work, p)
						}
					}
				}
			}
		}
	}
	// ordinals by source position of the header block order (block index is in source order)
	for i := 0; i < len(headers); i++ {
		for j := i + 1; j < len(headers); j++ {
			if headers[j].Index < headers[i].Index {
				headers[i], headers[j] = headers[j], headers[i]
			}
		}
	}
	for i, h := range headers {
		loops[h].ordinal = i
	}
	return loops
}

func (c *FnCtx) newFrame(fn *ssa.Function, args []Value, st *State) *frame {
	fr := &frame{c: c, fn: fn, regs: map[ssa.Value]Value{}, args: args, edge: map[[2]int]*State{}}
	fr.loops = findLoops(fn)
	fr.order = rpo(fn)
	if ct, _ := c.e.ContractFor(fn); ct != nil {
		fr.contract = ct
		for _, li := range fr.loops {
			li.spec = ct.Loops[li.ordinal]
		}
	}
	for i, p := range fn.Params {
		if i < len(args) {
			fr.regs[p] = args[i]
		}
	}
	fr.entry = st.clone()
	fr.baseR = st.R
	return fr
}

// exec runs fn on args from state st. It returns the (merged) results and exit state;
// exit == nil when no return is reachable.
func (c *FnCtx) exec(fn *ssa.Function, args []Value, bindings []Value, st *State) (Value, *State) {
	if len(fn.Blocks) == 0 {
		c.unsupported("call of %s: no body", FnKey(fn))
		return c.havocResults(st, fn.Signature.Results(), fn.Name()), st
	}
	for _, f := range c.stack {
		if f == fn {
			c.unsupported("recursive call of %s", FnKey(fn))
			return c.havocResults(st, fn.Signature.Results(), fn.Name()), st
		}
	}
	if len(c.stack) > 12 {
		c.unsupported("inlining depth exceeded at %s", FnKey(fn))
		return c.havocResults(st, fn.Signature.Results(), fn.Name()), st
	}
	c.stack = append(c.stack, fn)
	defer func() { c.stack = c.stack[:len(c.stack)-1] }()
	savedP := st.localP(c.f)
	st.P = c.f.True()
	fr := c.newFrame(fn, args, st)
	for i, fv := range fn.FreeVars {
		if i < len(bindings) {
			fr.regs[fv] = bindings[i]
		}
	}
	fr.runBlocks(fr.order, st, nil)
	res, out := fr.mergeReturns()
	st.P = savedP
	if out != nil {
		out.P = c.f.And(savedP, out.localP(c.f))
	}
	return res, out
}

func (c *FnCtx) havocResults(st *State, res *types.Tuple, name string) Value {
	if res == nil || res.Len() == 0 {
		return nil
	}
	if res.Len() == 1 {
		return c.freshValue(st, name+".res", res.At(0).Type())
	}
	return c.freshValue(st, name+".res", res)
}

func (fr *frame) mergeReturns() (Value, *State) {
	c := fr.c
	if len(fr.rets) == 0 {
		return nil, nil
	}
	states := make([]*State, len(fr.rets))
	for i, r := range fr.rets {
		states[i] = r.st
	}
	out := c.mergeStates(states, fr.baseR)
	n := len(fr.rets[0].vals)
	vals := make([]Value, n)
	for k := 0; k < n; k++ {
		col := make([]Value, len(fr.rets))
		for i, r := range fr.rets {
			col[i] = r.vals[k]
		}
		vals[k] = c.mergeValues(states, col, fmt.Sprintf("result %d of %s", k, fr.fn.Name()))
	}
	switch n {
	case 0:
		return nil, out
	case 1:
		return vals[0], out
	}
	return Tuple(vals), out
}

func (c *FnCtx) mergeStates(ss []*State, base *Term) *State {
	f := c.f
	if len(ss) == 1 {
		return ss[0].clone()
	}
	out := &State{heap: map[string]*Term{}}
	rs := make([]*Term, len(ss))
	for i, s := range ss {
		rs[i] = s.localP(f)
	}
	out.P = f.Or(rs...)
	out.R = f.And(base, out.P)
	keys := map[string]bool{}
	for _, s := range ss {
		for k := range s.heap {
			keys[k] = true
		}
	}
	for k := range keys {
		acc := c.heapGet(ss[len(ss)-1], k, c.heapSort[k])
		for i := len(ss) - 2; i >= 0; i-- {
			acc = f.Ite(ss[i].localP(f), c.heapGet(ss[i], k, c.heapSort[k]), acc)
		}
		out.heap[k] = acc
	}
	acc := ss[len(ss)-1].alpha
	for i := len(ss) - 2; i >= 0; i-- {
		acc = f.Ite(ss[i].localP(f), ss[i].alpha, acc)
	}
	out.alpha = acc
	// forwarding entries survive a join only when all predecessors agree
	for k, v := range ss[0].fwd {
		same := true
		for _, s := range ss[1:] {
			if s.fwd[k] != v {
				same = false
				break
			}
		}
		if same {
			if out.fwd == nil {
				out.fwd = map[string]*Term{}
			}
			out.fwd[k] = v
		}
	}
	return out
}

func (c *FnCtx) mergeValues(ss []*State, vs []Value, what string) Value {
	f := c.f
	if len(vs) == 1 {
		return vs[0]
	}
	allSame := true
	for _, v := range vs[1:] {
		if v != vs[0] {
			allSame = false
		}
	}
	if allSame {
		return vs[0]
	}
	switch vs[0].(type) {
	case *Term:
		acc, ok := vs[len(vs)-1].(*Term)
		if !ok {
			break
		}
		for i := len(vs) - 2; i >= 0; i-- {
			t, ok := vs[i].(*Term)
			if !ok {
				c.unsupported("merge of mixed values for %s", what)
				return vs[0]
			}
			if t.sort != acc.sort {
				c.unsupported("merge of differently sorted values for %s", what)
				return vs[0]
			}
			acc = f.Ite(ss[i].localP(f), t, acc)
		}
		return acc
	case Tuple:
		n := len(vs[0].(Tuple))
		out := make(Tuple, n)
		for k := 0; k < n; k++ {
			col := make([]Value, len(vs))
			for i := range vs {
				col[i] = vs[i].(Tuple)[k]
			}
			out[k] = c.mergeValues(ss, col, what)
		}
		return out
	case nil:
		// nil pointers of static kind mixed with LVs
	}
	// LVs: allow merge when structurally equal
	if lv0, ok := vs[0].(*LV); ok {
		same := true
		for _, v := range vs[1:] {
			lv, ok := v.(*LV)
			if !ok || lv.key != lv0.key || lv.ref != lv0.ref || lv.idx != lv0.idx || len(lv.path) != len(lv0.path) {
				same = false
			}
		}
		if same {
			return lv0
		}
	}
	c.unsupported("merge of static (pointer/closure) values for %s", what)
	return vs[0]
}

// runBlocks executes the given blocks (in order). restrict, when non-nil, limits execution to that set
// (used for loop dry runs); edges leaving the set are dropped.
func (fr *frame) runBlocks(order []*ssa.BasicBlock, entry *State, restrict map[*ssa.BasicBlock]bool) {
	c := fr.c
	for bi, b := range order {
		if restrict != nil && !restrict[b] {
			continue
		}
		var st *State
		li := fr.loops[b]
		isStart := bi == 0 && (restrict != nil || b == fr.fn.Blocks[0])
		if isStart && restrict != nil {
			st = entry
		} else if b == fr.fn.Blocks[0] {
			st = entry
		} else {
			var ins []*State
			var preds []int
			for pi, p := range b.Preds {
				if li != nil && li.backs[p] {
					continue
				}
				if es, ok := fr.edge[[2]int{p.Index, b.Index}]; ok && es != nil {
					ins = append(ins, es)
					preds = append(preds, pi)
				}
			}
			if len(ins) == 0 {
				continue
			}
			st = c.mergeStates(ins, fr.baseR)
			// phis
			for _, ins2 := range b.Instrs {
				phi, ok := ins2.(*ssa.Phi)
				if !ok {
					break
				}
				col := make([]Value, len(preds))
				for k, pi := range preds {
					col[k] = fr.operand(phi.Edges[pi], ins[k])
				}
				fr.regs[phi] = c.mergeValues(ins, col, "phi "+phi.Name())
			}
			if st.R.op == "false" {
				continue
			}
		}
		if li != nil && !(isStart && restrict != nil) {
			st = fr.enterLoop(li, st)
			if st == nil {
				continue
			}
		}
		fr.runBlock(b, st, restrict)
	}
}

func (fr *frame) setEdge(from, to *ssa.BasicBlock, st *State, restrict map[*ssa.BasicBlock]bool) {
	li := fr.loops[to]
	if li != nil && li.backs[from] {
		if restrict == nil || restrict[to] {
			fr.backEdge(li, from, st)
		}
		return
	}
	if restrict != nil && !restrict[to] {
		return
	}
	fr.edge[[2]int{from.Index, to.Index}] = st
}

func (fr *frame) runBlock(b *ssa.BasicBlock, st *State, restrict map[*ssa.BasicBlock]bool) {
	c := fr.c
	f := c.f
	for _, ins := range b.Instrs {
		switch x := ins.(type) {
		case *ssa.Phi:
			continue
		case *ssa.DebugRef:
			continue
		case *ssa.If:
			cond := fr.term(x.Cond, st)
			s1 := st.clone()
			c.assume(s1, cond)
			s2 := st.clone()
			c.assume(s2, f.Not(cond))
			fr.setEdge(b, b.Succs[0], s1, restrict)
			fr.setEdge(b, b.Succs[1], s2, restrict)
			return
		case *ssa.Jump:
			fr.setEdge(b, b.Succs[0], st, restrict)
			return
		case *ssa.Return:
			vals := make([]Value, len(x.Results))
			for i, r := range x.Results {
				vals[i] = fr.operand(r, st)
			}
			fr.rets = append(fr.rets, retRec{st: st, vals: vals})
			return
		case *ssa.Panic:
			c.oblige(st, "panic", f.False(), c.e.pos(x.Pos()), "explicit panic is unreachable")
			return
		default:
			fr.instr(ins, st)
			if st.R.op == "false" {
				return
			}
		}
	}
}

// oblige records a proof obligation R => cond and then assumes cond.
func (c *FnCtx) oblige(st *State, kind string, cond *Term, pos, text string) {
	if c.ghost > 0 || c.dry > 0 {
		return
	}
	if cond.op == "true" {
		return
	}
	goal := c.f.Implies(st.R, cond)
	if goal.op != "true" {
		c.kindCount[kind]++
		name := fmt.Sprintf("%s/%s#%d", c.curFn, kind, c.kindCount[kind])
		c.obls = append(c.obls, &Obligation{Name: name, Kind: kind, Fn: c.curFn, Cond: goal, Pos: pos, Text: text})
	}
	c.assume(st, cond)
}

// operand evaluates an SSA value.
func (fr *frame) operand(v ssa.Value, st *State) Value {
	c := fr.c
	switch x := v.(type) {
	case *ssa.Const:
		return c.constValue(x)
	case *ssa.Global:
		return c.globalLV(x)
	case *ssa.Function:
		return &FuncVal{Fn: x}
	case *ssa.Builtin:
		return x
	}
	if r, ok := fr.regs[v]; ok {
		return r
	}
	c.unsupported("use of undefined SSA value %s in %s", v.Name(), fr.fn.Name())
	val := c.freshValue(st, v.Name(), v.Type())
	fr.regs[v] = val
	return val
}

func (fr *frame) term(v ssa.Value, st *State) *Term {
	val := fr.operand(v, st)
	if t, ok := val.(*Term); ok {
		return t
	}
	if val == nil {
		// nil static pointer
		return fr.c.f.Int(0)
	}
	fr.c.unsupported("expected a first-order value for %s (%T) in %s", v.Name(), val, fr.fn.Name())
	s, ok := fr.c.sortOf(v.Type())
	if !ok {
		s = SInt
	}
	return fr.c.f.Fresh("unsup", s)
}

func (c *FnCtx) constValue(x *ssa.Const) Value {
	f := c.f
	t := x.Type()
	if x.Value == nil {
		// zero value / nil
		if s, ok := c.sortOf(t); ok {
			return c.zeroOfSort(s, t)
		}
		return nil
	}
	switch x.Value.Kind() {
	case constant.Bool:
		return f.Bool(constant.BoolVal(x.Value))
	case constant.Int:
		bv, _ := new(big.Int).SetString(x.Value.ExactString(), 10)
		return f.IntB(bv)
	case constant.String:
		s := constant.StringVal(x.Value)
		return c.stringLit(s)
	}
	c.unsupported("constant of kind %v", x.Value.Kind())
	return f.Int(0)
}

func (c *FnCtx) stringLit(s string) *Term {
	f := c.f
	if len(s) == 0 {
		return f.SEmpty(SB)
	}
	parts := make([]*Term, len(s))
	for i := 0; i < len(s); i++ {
		parts[i] = f.SOne(SB, f.Int(int64(s[i])))
	}
	return f.SCatN(SB, parts...)
}

func (c *FnCtx) globalLV(g *ssa.Global) Value {
	f := c.f
	ref, ok := c.globals[g]
	if !ok {
		ref = f.Const("g$"+sanitize(g.Pkg.Pkg.Name()+"."+g.Name()), SInt)
		c.globals[g] = ref
		// distinct, allocated before entry
		var dist []*Term
		for og, or := range c.globals {
			if og != g {
				dist = append(dist, f.Not(f.Eq(ref, or)))
			}
		}
		c.f.ranges = append(c.f.ranges, f.And(append(dist, f.Lt(f.Int(0), ref), f.Le(ref, c.alpha0))...))
	}
	et := g.Type().(*types.Pointer).Elem()
	switch et.Underlying().(type) {
	case *types.Struct, *types.Array:
		return ref
	}
	s, ok2 := c.sortOf(et)
	if !ok2 {
		c.unsupported("global %s of static-only type", g.Name())
		s = SInt
	}
	key := cellKey(s)
	c.declareHeapKey(key, s)
	return &LV{key: key, ref: ref, typ: et}
}

func (fr *frame) set(v ssa.Value, val Value) { fr.regs[v] = val }

// globalConstant: a package-level variable that is assigned exactly once, in a package initialiser,
// is a constant for every function under verification: its value is the constant initialiser, or an
// opaque constant of its type (the same term in every state).
func (c *FnCtx) globalConstant(st *State, g *ssa.Global) (Value, bool) {
	if c.e.GlobalMulti[g] {
		return nil, false
	}
	et := g.Type().(*types.Pointer).Elem()
	switch et.Underlying().(type) {
	case *types.Struct, *types.Array:
		return nil, false
	}
	s, ok := c.sortOf(et)
	if !ok {
		return nil, false
	}
	if init, ok := c.e.GlobalInit[g]; ok {
		if k, ok := init.(*ssa.Const); ok {
			return c.constValue(k), true
		}
	}
	t := c.f.Const("gconst$"+sanitize(g.Pkg.Pkg.Path()+"."+g.Name()), s)
	c.assumeWFGlobal(t, et)
	return t, true
}

// assumeWFGlobal records the type invariants of a global constant as global facts.
func (c *FnCtx) assumeWFGlobal(t *Term, typ types.Type) {
	tmp := &State{R: c.f.True(), heap: map[string]*Term{}, alpha: c.alpha0}
	c.assumeWF(tmp, t, typ)
	if tmp.R.op != "true" {
		dup := false
		for _, r := range c.f.ranges {
			if r == tmp.R {
				dup = true
			}
		}
		if !dup {
			c.f.ranges = append(c.f.ranges, tmp.R)
		}
	}
}

func (fr *frame) instr(ins ssa.Instruction, st *State) {
	c := fr.c
	f := c.f
	pos := c.e.pos(ins.Pos())
	switch x := ins.(type) {
	case *ssa.Alloc:
		et := x.Type().(*types.Pointer).Elem()
		switch u := et.Underlying().(type) {
		case *types.Struct:
			fr.set(x, c.allocStruct(st, et))
		case *types.Array:
			if si := c.structInfoOf(u.Elem()); si != nil && u.Len() <= 64 {
				// an array of structs: consecutive flattened objects
				base := c.alloc(st, si.size*int(u.Len()))
				for k := int64(0); k < u.Len(); k++ {
					ref := f.Add(base, f.Int(k*int64(si.size)))
					c.storeStruct(st, si, ref, c.zeroOfSort(Sort(si.name), u.Elem()))
					c.initGhost(st, u.Elem(), ref)
				}
				fr.set(x, base)
				return
			}
			seq, _ := c.sortOf(et)
			ref := c.alloc(st, 1)
			c.setRegion(st, seq, ref, c.zeroOfSort(seq, et))
			fr.set(x, ref)
		default:
			s, ok := c.sortOf(et)
			if !ok {
				// cell holding a static value (pointer to scalar, func value)
				fr.set(x, &StaticCell{})
				return
			}
			ref := c.alloc(st, 1)
			key := cellKey(s)
			c.declareHeapKey(key, s)
			lv := &LV{key: key, ref: ref, typ: et}
			c.store(st, lv, c.zeroOfSort(s, et))
			fr.set(x, lv)
		}
	case *ssa.Store:
		addr := fr.operand(x.Addr, st)
		fr.storeTo(addr, x.Val, st, pos)
	case *ssa.UnOp:
		fr.set(x, fr.unop(x, st, pos))
	case *ssa.BinOp:
		a := fr.operand(x.X, st)
		b := fr.operand(x.Y, st)
		fr.set(x, c.binop(st, x.Op, a, b, x.X.Type(), x.Y.Type(), x.Type(), pos))
	case *ssa.Convert:
		fr.set(x, fr.convert(x, st, pos))
	case *ssa.ChangeType:
		fr.set(x, fr.operand(x.X, st))
	case *ssa.ChangeInterface:
		fr.set(x, fr.operand(x.X, st))
	case *ssa.MakeInterface:
		fr.set(x, c.makeInterface(st, fr.operand(x.X, st), x.X.Type()))
	case *ssa.TypeAssert:
		fr.set(x, fr.typeAssert(x, st, pos))
	case *ssa.Extract:
		tv := fr.operand(x.Tuple, st)
		if tup, ok := tv.(Tuple); ok && x.Index < len(tup) {
			fr.set(x, tup[x.Index])
		} else {
			c.unsupported("extract from non-tuple at %s", pos)
			fr.set(x, c.freshValue(st, x.Name(), x.Type()))
		}
	case *ssa.Field:
		sv := fr.term(x.X, st)
		si := c.structInfoOf(x.X.Type())
		v := c.structSel(si, x.Field, sv)
		fr.set(x, v)
	case *ssa.FieldAddr:
		fr.set(x, fr.fieldAddr(x, st, pos))
	case *ssa.IndexAddr:
		fr.set(x, fr.indexAddr(x, st, pos))
	case *ssa.Index:
		fr.set(x, fr.index(x, st, pos))
	case *ssa.Lookup:
		fr.set(x, fr.lookup(x, st, pos))
	case *ssa.Slice:
		fr.set(x, fr.slice(x, st, pos))
	case *ssa.MakeSlice:
		fr.set(x, fr.makeSlice(x, st, pos))
	case *ssa.MakeMap:
		fr.set(x, c.makeMap(st, x.Type()))
	case *ssa.MapUpdate:
		fr.mapUpdate(x, st, pos)
	case *ssa.MakeClosure:
		bs := make([]Value, len(x.Bindings))
		for i, b := range x.Bindings {
			bs[i] = fr.operand(b, st)
		}
		fr.set(x, &Closure{Fn: x.Fn.(*ssa.Function), Bindings: bs})
	case *ssa.Call:
		res := fr.call(x, st, pos)
		fr.set(x, res)
	case *ssa.RunDefers:
		// no defers in scope
	case *ssa.SliceToArrayPointer:
		s := fr.term(x.X, st)
		n := x.Type().(*types.Pointer).Elem().Underlying().(*types.Array).Len()
		c.oblige(st, "bounds", f.Le(f.Int(n), f.SlLen(s)), pos, "slice to array pointer conversion: length")
		if !f.SlOff(s).isZero() {
			c.unsupported("slice-to-array-pointer with non-zero offset at %s", pos)
		}
		fr.set(x, f.SlRef(s))
	default:
		c.unsupported("instruction %T at %s", ins, pos)
		if v, ok := ins.(ssa.Value); ok {
			fr.set(v, c.freshValue(st, v.Name(), v.Type()))
		}
	}
}

func (t *Term) isZero() bool { return t.ival != nil && t.ival.Sign() == 0 }

// StaticCell is a local variable holding a static (non first-order) value.
type StaticCell struct{ val Value }

func (fr *frame) storeTo(addr Value, val ssa.Value, st *State, pos string) {
	c := fr.c
	switch a := addr.(type) {
	case *LV:
		v := fr.term(val, st)
		c.frameCheck(st, a.key, a.ref, a.idx, nil, pos)
		c.store(st, a, v)
	case *Term:
		et := val.Type()
		switch et.Underlying().(type) {
		case *types.Struct:
			si := c.structInfoOf(et)
			c.nilCheck(st, a, pos)
			c.frameCheckWhole(st, a, si, pos)
			c.storeStruct(st, si, a, fr.term(val, st))
		case *types.Array:
			seq, _ := c.sortOf(et)
			c.nilCheck(st, a, pos)
			c.frameCheck(st, memKey(seq), a, nil, nil, pos)
			c.setRegion(st, seq, a, fr.term(val, st))
		default:
			c.unsupported("store through first-order pointer to %s at %s", et, pos)
		}
	case *StaticCell:
		a.val = fr.operand(val, st)
	default:
		c.unsupported("store to unknown address kind %T at %s", addr, pos)
	}
}

func (c *FnCtx) nilCheck(st *State, ref *Term, pos string) {
	c.oblige(st, "nil", c.f.Not(c.f.Eq(ref, c.f.Int(0))), pos, "nil dereference")
}

func (fr *frame) unop(x *ssa.UnOp, st *State, pos string) Value {
	c := fr.c
	f := c.f
	switch x.Op {
	case token.MUL: // load
		if g, ok := x.X.(*ssa.Global); ok {
			if v, ok := c.globalConstant(st, g); ok {
				return v
			}
		}
		addr := fr.operand(x.X, st)
		switch a := addr.(type) {
		case *LV:
			return c.load(st, a)
		case *Term:
			et := x.Type()
			switch et.Underlying().(type) {
			case *types.Struct:
				c.nilCheck(st, a, pos)
				return c.loadStruct(st, c.structInfoOf(et), a)
			case *types.Array:
				c.nilCheck(st, a, pos)
				seq, _ := c.sortOf(et)
				return c.regionOf(st, seq, a)
			}
			c.unsupported("load through first-order pointer to %s at %s", et, pos)
			return c.freshValue(st, x.Name(), et)
		case *StaticCell:
			return a.val
		}
		c.unsupported("load from %T at %s", addr, pos)
		return c.freshValue(st, x.Name(), x.Type())
	case token.NOT:
		return f.Not(fr.term(x.X, st))
	case token.SUB:
		v := fr.term(x.X, st)
		bits, signed, _ := intInfo(x.Type())
		return f.Wrap(f.Neg(v), bits, signed)
	case token.XOR:
		v := fr.term(x.X, st)
		bits, signed, _ := intInfo(x.Type())
		if signed {
			return f.Sub(f.Int(-1), v)
		}
		return f.Sub(f.IntB(new(big.Int).Sub(pow2(bits), bi(1))), v)
	}
	c.unsupported("unary op %s at %s", x.Op, pos)
	return c.freshValue(st, x.Name(), x.Type())
}

func (fr *frame) convert(x *ssa.Convert, st *State, pos string) Value {
	c := fr.c
	f := c.f
	from, to := x.X.Type().Underlying(), x.Type().Underlying()
	v := fr.operand(x.X, st)
	if bits, signed, ok := intInfo(x.Type()); ok {
		if _, _, ok2 := intInfo(x.X.Type()); ok2 || isMathint(x.X.Type()) {
			return f.Wrap(v.(*Term), bits, signed)
		}
	}
	if isMathint(x.Type()) {
		if t, ok := v.(*Term); ok && t.sort == SInt {
			return t
		}
	}
	if tb, ok := to.(*types.Basic); ok && tb.Info()&types.IsString != 0 {
		if fs, ok := from.(*types.Slice); ok && isByte(fs.Elem()) {
			return c.sliceContent(st, SB, v.(*Term))
		}
	}
	if ts, ok := to.(*types.Slice); ok && isByte(ts.Elem()) {
		if fb, ok := from.(*types.Basic); ok && fb.Info()&types.IsString != 0 {
			return c.bytesToFreshSlice(st, v.(*Term), x.Name())
		}
	}
	if _, ok := to.(*types.Pointer); ok {
		return v
	}
	c.unsupported("conversion %s -> %s at %s", x.X.Type(), x.Type(), pos)
	return c.freshValue(st, x.Name(), x.Type())
}

// bytesToFreshSlice allocates a new byte region holding content (capacity unknown >= len).
func (c *FnCtx) bytesToFreshSlice(st *State, content *Term, name string) *Term {
	f := c.f
	ref := c.alloc(st, 1)
	n := f.SLen(content)
	extra := f.Fresh(name+".spare", SB)
	c.setRegion(st, SB, ref, f.SCat(content, extra))
	cp := f.Add(n, f.SLen(extra))
	c.assume(st, f.Le(cp, f.IntB(maxLen)))
	return f.MkSl(ref, f.Int(0), n, cp)
}

// newSliceWith allocates a fresh region with exactly the given content (cap == len).
func (c *FnCtx) newSliceExact(st *State, seq Sort, content *Term) *Term {
	f := c.f
	ref := c.alloc(st, 1)
	c.setRegion(st, seq, ref, content)
	n := f.SLen(content)
	return f.MkSl(ref, f.Int(0), n, n)
}

func (c *FnCtx) makeInterface(st *State, v Value, t types.Type) Value {
	f := c.f
	id := f.Int(int64(c.e.TypeID(t)))
	tv, ok := v.(*Term)
	if !ok {
		c.unsupported("interface holding static value of type %s", t)
		return f.MkIf(id, f.Fresh("box", SInt))
	}
	switch t.Underlying().(type) {
	case *types.Pointer, *types.Map, *types.Chan:
		if tv.sort == SInt {
			return f.MkIf(id, tv)
		}
	}
	return f.MkIf(id, c.box(tv))
}

func (c *FnCtx) box(v *Term) *Term {
	tag := sanitize(string(v.sort))
	c.f.DeclareFun("box$"+tag, []Sort{v.sort}, SInt)
	c.f.DeclareFun("unbox$"+tag, []Sort{SInt}, v.sort)
	ax := fmt.Sprintf("(assert (forall ((v %s)) (! (= (unbox$%s (box$%s v)) v) :pattern ((box$%s v)))))", v.sort, tag, tag, tag)
	c.addAxiom(ax)
	ax2 := fmt.Sprintf("(assert (forall ((v %s)) (! (< (box$%s v) 0) :pattern ((box$%s v)))))", v.sort, tag, tag)
	c.addAxiom(ax2)
	return c.f.App("box$"+tag, SInt, v)
}

func (c *FnCtx) unbox(v *Term, s Sort) *Term {
	tag := sanitize(string(s))
	c.f.DeclareFun("box$"+tag, []Sort{s}, SInt)
	c.f.DeclareFun("unbox$"+tag, []Sort{SInt}, s)
	if v.op == "box$"+tag {
		return v.args[0]
	}
	return c.f.App("unbox$"+tag, s, v)
}

func (c *FnCtx) addAxiom(ax string) {
	for _, a := range c.f.axioms {
		if a == ax {
			return
		}
	}
	c.f.axioms = append(c.f.axioms, ax)
}

func (fr *frame) typeAssert(x *ssa.TypeAssert, st *State, pos string) Value {
	c := fr.c
	f := c.f
	iv := fr.term(x.X, st)
	var ok *Term
	var val Value
	if types.IsInterface(x.AssertedType) {
		// interface-to-interface
		if types.AssignableTo(x.X.Type(), x.AssertedType) {
			ok = f.Not(f.Eq(f.IfTyp(iv), f.Int(0)))
		} else {
			name := "implements$" + sanitize(typeKey(x.AssertedType))
			f.DeclareFun(name, []Sort{SInt}, SBool)
			ok = f.And(f.Not(f.Eq(f.IfTyp(iv), f.Int(0))), f.App(name, SBool, f.IfTyp(iv)))
		}
		val = iv
	} else {
		id := f.Int(int64(c.e.TypeID(x.AssertedType)))
		ok = f.Eq(f.IfTyp(iv), id)
		s, sok := c.sortOf(x.AssertedType)
		if !sok {
			c.unsupported("type assertion to static-only type %s at %s", x.AssertedType, pos)
			s = SInt
		}
		switch x.AssertedType.Underlying().(type) {
		case *types.Pointer, *types.Map, *types.Chan:
			val = f.IfVal(iv)
		default:
			val = c.unbox(f.IfVal(iv), s)
		}
		if vt, isT := val.(*Term); isT {
			if x.CommaOk {
				val = f.Ite(ok, vt, c.zeroOfSort(s, x.AssertedType))
			}
		}
	}
	if x.CommaOk {
		return Tuple{val, ok}
	}
	c.oblige(st, "assertT", ok, pos, "type assertion cannot fail")
	return val
}

func (fr *frame) fieldAddr(x *ssa.FieldAddr, st *State, pos string) Value {
	c := fr.c
	f := c.f
	base := fr.operand(x.X, st)
	stT := x.X.Type().Underlying().(*types.Pointer).Elem()
	si := c.structInfoOf(stT)
	sf := &si.fields[x.Field]
	switch b := base.(type) {
	case *Term:
		c.nilCheck(st, b, pos)
		switch sf.kind {
		case 1, 2:
			return f.Add(b, f.Int(int64(sf.off)))
		}
		if _, ok := c.sortOf(sf.typ); !ok {
			c.unsupported("address of static-typed field %s.%s at %s", si.tname, sf.name, pos)
		}
		return c.fieldLV(si, sf, b)
	case *LV:
		nl := *b
		nl.path = append(append([]pathStep{}, b.path...), pathStep{field: sf.name, fsort: sf.sort, dt: si, fidx: x.Field})
		nl.typ = sf.typ
		return &nl
	}
	c.unsupported("field address on %T at %s", base, pos)
	return c.fieldLV(si, sf, f.Fresh("ref", SInt))
}

func (fr *frame) indexAddr(x *ssa.IndexAddr, st *State, pos string) Value {
	c := fr.c
	f := c.f
	i := fr.term(x.Index, st)
	switch u := x.X.Type().Underlying().(type) {
	case *types.Slice:
		s := fr.term(x.X, st)
		if si := c.structInfoOf(u.Elem()); si != nil {
			// elements of a slice of structs are flattened objects at ref + (off+i)*size
			c.oblige(st, "bounds", f.And(f.Le(f.Int(0), i), f.Lt(i, f.SlLen(s))), pos, "index in range")
			return f.Add(f.SlRef(s), f.Mul(f.Add(f.SlOff(s), i), f.Int(int64(si.size))))
		}
		seq := c.elemSeqSort(x.X.Type())
		c.oblige(st, "bounds", f.And(f.Le(f.Int(0), i), f.Lt(i, f.SlLen(s))), pos, "index in range")
		key := memKey(seq)
		c.declareHeapKey(key, seq)
		return fr.elemPtr(&LV{key: key, ref: f.SlRef(s), elem: true, idx: f.Add(f.SlOff(s), i), typ: u.Elem(), sl: s, rel: i})
	case *types.Pointer:
		arr := u.Elem().Underlying().(*types.Array)
		base := fr.operand(x.X, st)
		if si := c.structInfoOf(arr.Elem()); si != nil {
			if bt, ok := base.(*Term); ok {
				c.oblige(st, "bounds", f.And(f.Le(f.Int(0), i), f.Lt(i, f.Int(arr.Len()))), pos, "index in range")
				return f.Add(bt, f.Mul(i, f.Int(int64(si.size))))
			}
		}
		seq := c.elemSeqSort(u.Elem())
		c.oblige(st, "bounds", f.And(f.Le(f.Int(0), i), f.Lt(i, f.Int(arr.Len()))), pos, "index in range")
		switch b := base.(type) {
		case *Term:
			c.nilCheck(st, b, pos)
			key := memKey(seq)
			c.declareHeapKey(key, seq)
			return fr.elemPtr(&LV{key: key, ref: b, elem: true, idx: i, typ: arr.Elem()})
		case *LV:
			nl := *b
			nl.path = append(append([]pathStep{}, b.path...), pathStep{index: i})
			nl.typ = arr.Elem()
			return &nl
		}
	}
	c.unsupported("index address on %s at %s", x.X.Type(), pos)
	return &LV{key: cellKey(SInt), ref: f.Fresh("ref", SInt), typ: types.Typ[types.Int]}
}

// elemPtr: pointers to struct-typed elements stay LVs (struct values inside sequences).
func (fr *frame) elemPtr(lv *LV) Value { return lv }

func (fr *frame) index(x *ssa.Index, st *State, pos string) Value {
	c := fr.c
	f := c.f
	v := fr.term(x.X, st)
	i := fr.term(x.Index, st)
	switch u := x.X.Type().Underlying().(type) {
	case *types.Array:
		c.oblige(st, "bounds", f.And(f.Le(f.Int(0), i), f.Lt(i, f.Int(u.Len()))), pos, "index in range")
		r := f.SAt(v, i)
		c.typeRange(r, u.Elem())
		return r
	case *types.Basic: // string
		c.oblige(st, "bounds", f.And(f.Le(f.Int(0), i), f.Lt(i, f.SLen(v))), pos, "string index in range")
		return f.SAt(v, i)
	}
	c.unsupported("index on %s at %s", x.X.Type(), pos)
	return c.freshValue(st, x.Name(), x.Type())
}

func (fr *frame) slice(x *ssa.Slice, st *State, pos string) Value {
	c := fr.c
	f := c.f
	var lo, hi, mx *Term
	if x.Low != nil {
		lo = fr.term(x.Low, st)
	} else {
		lo = f.Int(0)
	}
	switch u := x.X.Type().Underlying().(type) {
	case *types.Slice:
		s := fr.term(x.X, st)
		ln, cp := f.SlLen(s), f.SlCap(s)
		if x.High != nil {
			hi = fr.term(x.High, st)
		} else {
			hi = ln
		}
		if x.Max != nil {
			mx = fr.term(x.Max, st)
		} else {
			mx = cp
		}
		c.oblige(st, "bounds", f.And(f.Le(f.Int(0), lo), f.Le(lo, hi), f.Le(hi, mx), f.Le(mx, cp)), pos, "slice bounds in range")
		if x.High != nil && c.hasFrame {
			// C16: results must not depend on spare capacity of pre-existing memory
			c.oblige(st, "spare", f.Or(f.Le(hi, ln), c.isFresh(f.SlRef(s))), pos, "reslice does not expose spare capacity of pre-existing memory")
		}
		return f.MkSl(f.SlRef(s), f.Add(f.SlOff(s), lo), f.Sub(hi, lo), f.Sub(mx, lo))
	case *types.Basic: // string
		s := fr.term(x.X, st)
		if x.High != nil {
			hi = fr.term(x.High, st)
		} else {
			hi = f.SLen(s)
		}
		c.oblige(st, "bounds", f.And(f.Le(f.Int(0), lo), f.Le(lo, hi), f.Le(hi, f.SLen(s))), pos, "string slice bounds in range")
		return f.SSub(s, lo, hi)
	case *types.Pointer:
		arr := u.Elem().Underlying().(*types.Array)
		n := f.Int(arr.Len())
		if x.High != nil {
			hi = fr.term(x.High, st)
		} else {
			hi = n
		}
		if x.Max != nil {
			mx = fr.term(x.Max, st)
		} else {
			mx = n
		}
		c.oblige(st, "bounds", f.And(f.Le(f.Int(0), lo), f.Le(lo, hi), f.Le(hi, mx), f.Le(mx, n)), pos, "slice bounds in range")
		base := fr.operand(x.X, st)
		if b, ok := base.(*Term); ok {
			c.nilCheck(st, b, pos)
			return f.MkSl(b, lo, f.Sub(hi, lo), f.Sub(mx, lo))
		}
	}
	c.unsupported("slice of %s at %s", x.X.Type(), pos)
	return c.freshValue(st, x.Name(), x.Type())
}

func (fr *frame) makeSlice(x *ssa.MakeSlice, st *State, pos string) Value {
	c := fr.c
	f := c.f
	ln := fr.term(x.Len, st)
	cp := fr.term(x.Cap, st)
	et := x.Type().Underlying().(*types.Slice).Elem()
	if si := c.structInfoOf(et); si != nil {
		c.oblige(st, "alloc", f.And(f.Le(f.Int(0), ln), f.Le(ln, cp), f.Le(f.Mul(cp, f.Int(c.sizeof(et))), f.IntB(maxAlloc))), pos, "make: length/capacity in range (no makeslice panic)")
		c.allocCheck(st, f.Mul(cp, f.Int(c.sizeof(et))), pos)
		ref := f.Add(st.alpha, f.Int(1))
		st.alpha = f.Add(st.alpha, f.Mul(cp, f.Int(int64(si.size))))
		c.note("make of a slice of structs at %s: elements are not modelled as zero-initialised", pos)
		return f.MkSl(ref, f.Int(0), ln, cp)
	}
	seq := c.elemSeqSort(x.Type())
	es, _ := c.sortOf(et)
	c.oblige(st, "alloc", f.And(f.Le(f.Int(0), ln), f.Le(ln, cp), f.Le(f.Mul(cp, f.Int(c.sizeof(et))), f.IntB(maxAlloc))), pos, "make: length/capacity in range (no makeslice panic)")
	c.allocCheck(st, f.Mul(cp, f.Int(c.sizeof(et))), pos)
	ref := c.alloc(st, 1)
	c.setRegion(st, seq, ref, f.SRep(seq, c.zeroOfSort(es, et), cp))
	return f.MkSl(ref, f.Int(0), ln, cp)
}

func (c *FnCtx) sizeof(t types.Type) int64 {
	sz := types.SizesFor("gc", "amd64").Sizeof(t)
	if sz <= 0 {
		return 1
	}
	return sz
}

func (c *FnCtx) allocCheck(st *State, bytes *Term, pos string) {
	if c.allocBnd == nil {
		return
	}
	n := len(c.obls)
	c.oblige(st, "alloc", c.f.Le(bytes, c.allocBnd), pos, "allocation is proportional to the input")
	if len(c.obls) > n {
		c.obls[len(c.obls)-1].Aux = bytes
	}
}

// ---------------------------------------------------------------------------
// maps

func (c *FnCtx) mapSorts(t types.Type) (ks, vs Sort, domKey, valKey string) {
	m := t.Underlying().(*types.Map)
	ks, ok := c.sortOf(m.Key())
	if !ok {
		ks = SInt
	}
	vs, ok = c.sortOf(m.Elem())
	if !ok {
		vs = SInt
	}
	tag := sanitize(string(ks)) + "$" + sanitize(string(vs))
	domKey, valKey = "MD|"+tag, "MV|"+tag
	if _, ok := c.heapSort[domKey]; !ok {
		c.heapSort[domKey] = ArraySort(SInt, ArraySort(ks, SBool))
		c.heapSort[valKey] = ArraySort(SInt, ArraySort(ks, vs))
	}
	return
}

func (c *FnCtx) makeMap(st *State, t types.Type) Value {
	f := c.f
	ks, _, dk, _ := c.mapSorts(t)
	ref := c.alloc(st, 1)
	empty := f.App(fmt.Sprintf("((as const %s) false)", ArraySort(ks, SBool)), ArraySort(ks, SBool))
	dom := c.heapGet(st, dk, c.heapSort[dk])
	c.heapSet(st, dk, f.Store(dom, ref, empty), ref)
	return ref
}

func (fr *frame) mapUpdate(x *ssa.MapUpdate, st *State, pos string) {
	c := fr.c
	f := c.f
	m := fr.term(x.Map, st)
	k := fr.term(x.Key, st)
	v := fr.term(x.Value, st)
	_, _, dk, vk := c.mapSorts(x.Map.Type())
	c.oblige(st, "nil", f.Not(f.Eq(m, f.Int(0))), pos, "assignment to entry in nil map")
	c.frameCheck(st, dk, m, nil, nil, pos)
	dom := c.heapGet(st, dk, c.heapSort[dk])
	val := c.heapGet(st, vk, c.heapSort[vk])
	c.heapSet(st, dk, f.Store(dom, m, f.Store(f.Select(dom, m), k, f.True())), m)
	c.heapSet(st, vk, f.Store(val, m, f.Store(f.Select(val, m), k, v)), m)
}

func (fr *frame) lookup(x *ssa.Lookup, st *State, pos string) Value {
	c := fr.c
	f := c.f
	if _, ok := x.X.Type().Underlying().(*types.Map); !ok {
		// string index
		s := fr.term(x.X, st)
		i := fr.term(x.Index, st)
		c.oblige(st, "bounds", f.And(f.Le(f.Int(0), i), f.Lt(i, f.SLen(s))), pos, "string index in range")
		return f.SAt(s, i)
	}
	m := fr.term(x.X, st)
	k := fr.term(x.Index, st)
	mt := x.X.Type().Underlying().(*types.Map)
	_, vs, dk, vk := c.mapSorts(x.X.Type())
	dom := c.heapGet(st, dk, c.heapSort[dk])
	val := c.heapGet(st, vk, c.heapSort[vk])
	ok := f.And(f.Not(f.Eq(m, f.Int(0))), f.Select(f.Select(dom, m), k))
	raw := f.Select(f.Select(val, m), k)
	c.assumeWF(st, raw, mt.Elem())
	v := f.Ite(ok, raw, c.zeroOfSort(vs, mt.Elem()))
	if x.CommaOk {
		return Tuple{v, ok}
	}
	return v
}

// ---------------------------------------------------------------------------
// binary operators

func (c *FnCtx) binop(st *State, op token.Token, av, bv Value, at, bt, rt types.Type, pos string) Value {
	f := c.f
	a, aok := av.(*Term)
	b, bok := bv.(*Term)
	if !aok || !bok {
		// pointer comparisons on static values
		if op == token.EQL || op == token.NEQ {
			if av == nil && bv == nil {
				return f.Bool(op == token.EQL)
			}
			if (av == nil) != (bv == nil) {
				// LV vs nil
				return f.Bool(op == token.NEQ)
			}
		}
		c.unsupported("binary op %s on static values at %s", op, pos)
		return c.freshValue(st, "binop", rt)
	}
	switch at.Underlying().(type) {
	case *types.Slice:
		// only comparison with nil
		var s *Term
		if b.op == "mkSl" && b.args[0].isZero() {
			s = a
		} else if a.op == "mkSl" && a.args[0].isZero() {
			s = b
		}
		if s != nil {
			isnil := f.Eq(f.SlRef(s), f.Int(0))
			if op == token.EQL {
				return isnil
			}
			return f.Not(isnil)
		}
	case *types.Interface:
		if b.op == "mkIf" && b.args[0].isZero() {
			r := f.Eq(f.IfTyp(a), f.Int(0))
			if op == token.NEQ {
				r = f.Not(r)
			}
			return r
		}
		if a.op == "mkIf" && a.args[0].isZero() {
			r := f.Eq(f.IfTyp(b), f.Int(0))
			if op == token.NEQ {
				r = f.Not(r)
			}
			return r
		}
	}
	if a.sort == SB && b.sort == SB {
		switch op {
		case token.ADD:
			return f.SCat(a, b)
		case token.EQL:
			return f.SEq(a, b)
		case token.NEQ:
			return f.Not(f.SEq(a, b))
		}
		c.unsupported("string operator %s at %s", op, pos)
		return c.freshValue(st, "binop", rt)
	}
	if strings.HasPrefix(string(a.sort), "Seq$") && a.sort == b.sort {
		switch op {
		case token.EQL:
			return f.SEq(a, b)
		case token.NEQ:
			return f.Not(f.SEq(a, b))
		}
	}
	switch op {
	case token.EQL:
		return f.Eq(a, b)
	case token.NEQ:
		return f.Not(f.Eq(a, b))
	case token.LAND:
		return f.And(a, b)
	case token.LOR:
		return f.Or(a, b)
	}
	if a.sort == SBool {
		c.unsupported("boolean operator %s at %s", op, pos)
		return c.freshValue(st, "binop", rt)
	}
	switch op {
	case token.LSS:
		return f.Lt(a, b)
	case token.LEQ:
		return f.Le(a, b)
	case token.GTR:
		return f.Gt(a, b)
	case token.GEQ:
		return f.Ge(a, b)
	}
	if isMathint(rt) {
		switch op {
		case token.ADD:
			return f.Add(a, b)
		case token.SUB:
			return f.Sub(a, b)
		case token.MUL:
			return c.mathMul(a, b)
		case token.REM:
			// mathematical modulus (result in [0,|b|)); with a symbolic modulus an uninterpreted symbol
			// constrained to that range (congruence is what the proofs need)
			if b.ival != nil {
				return f.Mod(a, b)
			}
			f.DeclareFun("mmod", []Sort{SInt, SInt}, SInt)
			c.addAxiom("(assert (forall ((a Int) (b Int)) (! (=> (> b 0) (and (<= 0 (mmod a b)) (< (mmod a b) b))) :pattern ((mmod a b)))))")
			c.addAxiom("(assert (forall ((a Int) (b Int)) (! (=> (and (> b 0) (<= 0 a) (< a b)) (= (mmod a b) a)) :pattern ((mmod a b)))))")
			return f.App("mmod", SInt, a, b)
		case token.QUO:
			return f.Div(a, b)
		}
	}
	bits, signed, ok := intInfo(rt)
	if !ok {
		c.unsupported("arithmetic on %s at %s", rt, pos)
		return c.freshValue(st, "binop", rt)
	}
	if c.ghost > 0 && signed && bits == 64 {
		// inside contract expressions and spec functions, arithmetic on `int` is mathematical
		switch op {
		case token.ADD:
			return f.Add(a, b)
		case token.SUB:
			return f.Sub(a, b)
		case token.MUL:
			return f.Mul(a, b)
		}
	}
	switch op {
	case token.ADD:
		return f.Wrap(f.Add(a, b), bits, signed)
	case token.SUB:
		return f.Wrap(f.Sub(a, b), bits, signed)
	case token.MUL:
		return f.Wrap(f.Mul(a, b), bits, signed)
	case token.QUO, token.REM:
		c.oblige(st, "div", f.Not(f.Eq(b, f.Int(0))), pos, "division by zero")
		if op == token.REM && b.lo != nil && b.lo.Sign() > 0 && a.lo != nil && a.lo.Sign() >= 0 {
			return f.Mod(a, b)
		}
		q := c.truncDiv(a, b)
		if q == nil {
			c.note("division with divisor of unknown sign abstracted at %s", pos)
			return c.freshValue(st, "div", rt)
		}
		if op == token.QUO {
			return f.Wrap(q, bits, signed)
		}
		return f.Sub(a, f.Mul(b, q))
	case token.AND:
		return c.bitAnd(a, b, bits, pos)
	case token.OR:
		return c.bitOr(a, b, bits, pos)
	case token.XOR:
		// a ^ b = a + b - 2*(a&b)
		return f.Sub(f.Add(a, b), f.Mul(f.Int(2), c.bitAnd(a, b, bits, pos)))
	case token.AND_NOT:
		return f.Sub(a, c.bitAnd(a, b, bits, pos))
	case token.SHL:
		if b.ival != nil {
			if b.ival.Cmp(bi(int64(bits))) >= 0 {
				return f.Int(0)
			}
			return f.Wrap(f.Mul(a, f.IntB(pow2(uint(b.ival.Int64())))), bits, signed)
		}
		if _, bs, _ := intInfo(bt); bs {
			c.oblige(st, "shift", f.Le(f.Int(0), b), pos, "negative shift count")
		}
		return c.shiftVar(st, a, b, bits, signed, true, pos)
	case token.SHR:
		if b.ival != nil {
			if b.ival.Cmp(bi(int64(bits))) >= 0 {
				if signed {
					return f.Ite(f.Lt(a, f.Int(0)), f.Int(-1), f.Int(0))
				}
				return f.Int(0)
			}
			return f.Div(a, f.IntB(pow2(uint(b.ival.Int64()))))
		}
		if _, bs, _ := intInfo(bt); bs {
			c.oblige(st, "shift", f.Le(f.Int(0), b), pos, "negative shift count")
		}
		return c.shiftVar(st, a, b, bits, signed, false, pos)
	}
	c.unsupported("operator %s at %s", op, pos)
	return c.freshValue(st, "binop", rt)
}

// mathMul: the product of two mathematical integers. A product of two non-constant factors is an
// uninterpreted (commutative by construction) symbol: the algebra needed here is congruence and
// commutativity, which nonlinear integer arithmetic decides poorly.
func (c *FnCtx) mathMul(a, b *Term) *Term {
	f := c.f
	if a.ival != nil || b.ival != nil {
		return f.Mul(a, b)
	}
	if a.id > b.id {
		a, b = b, a
	}
	f.DeclareFun("mmul", []Sort{SInt, SInt}, SInt)
	c.addAxiom("(assert (forall ((a Int) (b Int)) (! (= (mmul a b) (mmul b a)) :pattern ((mmul a b)))))")
	return f.App("mmul", SInt, a, b)
}

func (c *FnCtx) shiftVar(st *State, a, b *Term, bits uint, signed, left bool, pos string) *Term {
	f := c.f
	// 2^b via an uninterpreted function with ground instances for small constants
	f.DeclareFun("pow2", []Sort{SInt}, SInt)
	if !c.axiomsOn {
		c.axiomsOn = true
		var sb strings.Builder
		for i := 0; i <= 64; i++ {
			fmt.Fprintf(&sb, "(assert (= (pow2 %d) %s))\n", i, pow2(uint(i)).String())
		}
		sb.WriteString("(assert (forall ((x Int)) (! (=> (>= x 0) (>= (pow2 x) 1)) :pattern ((pow2 x)))))")
		c.addAxiom(sb.String())
	}
	p := f.App("pow2", SInt, b)
	big := f.Ge(b, f.Int(int64(bits)))
	if left {
		return f.Ite(big, f.Int(0), f.Wrap(f.Mul(a, p), bits, signed))
	}
	var ov *Term = f.Int(0)
	if signed {
		ov = f.Ite(f.Lt(a, f.Int(0)), f.Int(-1), f.Int(0))
	}
	return f.Ite(big, ov, f.Div(a, p))
}

// truncDiv returns Go's truncated quotient a/b, or nil when the sign of b is unknown.
func (c *FnCtx) truncDiv(a, b *Term) *Term {
	f := c.f
	if b.lo != nil && b.lo.Sign() > 0 {
		if a.lo != nil && a.lo.Sign() >= 0 {
			return f.Div(a, b)
		}
		return f.Ite(f.Ge(a, f.Int(0)), f.Div(a, b), f.Neg(f.Div(f.Neg(a), b)))
	}
	if b.hi != nil && b.hi.Sign() < 0 {
		nb := f.Neg(b)
		return f.Neg(f.Ite(f.Ge(a, f.Int(0)), f.Div(a, nb), f.Neg(f.Div(f.Neg(a), nb))))
	}
	// sign of the divisor unknown: case split (the divisor is non-zero here)
	pos := f.Ite(f.Ge(a, f.Int(0)), f.Div(a, b), f.Neg(f.Div(f.Neg(a), b)))
	nb := f.Neg(b)
	neg := f.Neg(f.Ite(f.Ge(a, f.Int(0)), f.Div(a, nb), f.Neg(f.Div(f.Neg(a), nb))))
	return f.Ite(f.Gt(b, f.Int(0)), pos, neg)
}

func tzOf(t *Term) uint {
	switch {
	case t.ival != nil:
		if t.ival.Sign() == 0 {
			return 64
		}
		return t.ival.TrailingZeroBits()
	case t.op == "*":
		return tzOf(t.args[0]) + tzOf(t.args[1])
	case t.op == "+" || t.op == "ite" && false:
		a, b := tzOf(t.args[0]), tzOf(t.args[1])
		if a < b {
			return a
		}
		return b
	case t.op == "mod" && t.args[1].ival != nil:
		k := t.args[1].ival.TrailingZeroBits()
		a := tzOf(t.args[0])
		if a < k {
			return a
		}
		return k
	}
	return 0
}

func (c *FnCtx) bitOf(x *Term, i uint) *Term {
	f := c.f
	return f.Mod(f.Div(x, f.IntB(pow2(i))), f.Int(2))
}

func (c *FnCtx) bitAnd(a, b *Term, bits uint, pos string) *Term {
	f := c.f
	if a.ival != nil && b.ival == nil {
		a, b = b, a
	}
	if a.ival != nil && b.ival != nil {
		return f.IntB(new(big.Int).And(a.ival, b.ival))
	}
	nonneg := a.lo != nil && a.lo.Sign() >= 0
	if b.ival != nil && b.ival.Sign() >= 0 && nonneg {
		m := b.ival
		if m.Sign() == 0 {
			return f.Int(0)
		}
		// low mask 2^k-1
		if k := new(big.Int).Add(m, bi(1)); k.BitLen()-1 == int(k.TrailingZeroBits()) {
			return f.Mod(a, f.IntB(k))
		}
		// high contiguous mask within the operand's range: m = 2^w - 2^k with a < 2^w
		tz := m.TrailingZeroBits()
		top := new(big.Int).Add(m, pow2(tz)) // 2^w if contiguous
		if top.BitLen()-1 == int(top.TrailingZeroBits()) && a.hi != nil && a.hi.Cmp(top) < 0 {
			return f.Sub(a, f.Mod(a, f.IntB(pow2(tz))))
		}
		// contiguous block mask: ((a div 2^tz) mod 2^len) * 2^tz
		if top.BitLen()-1 == int(top.TrailingZeroBits()) {
			ln := uint(top.BitLen()-1) - tz
			return f.Mul(f.IntB(pow2(tz)), f.Mod(f.Div(a, f.IntB(pow2(tz))), f.IntB(pow2(ln))))
		}
		// general: sum of bits
		var r *Term = f.Int(0)
		for i := 0; i < m.BitLen(); i++ {
			if m.Bit(i) == 1 {
				r = f.Add(r, f.Mul(f.IntB(pow2(uint(i))), c.bitOf(a, uint(i))))
			}
		}
		return r
	}
	// x & x
	if a == b {
		return a
	}
	c.note("bitwise AND of two non-constant operands abstracted at %s", pos)
	f.DeclareFun("band", []Sort{SInt, SInt}, SInt)
	r := f.App("band", SInt, a, b)
	c.addAxiom("(assert (forall ((x Int) (y Int)) (! (=> (and (>= x 0) (>= y 0)) (and (>= (band x y) 0) (<= (band x y) x) (<= (band x y) y))) :pattern ((band x y)))))")
	return r
}

func (c *FnCtx) bitOr(a, b *Term, bits uint, pos string) *Term {
	f := c.f
	if a.ival != nil && b.ival == nil {
		a, b = b, a
	}
	if a.ival != nil && b.ival != nil {
		return f.IntB(new(big.Int).Or(a.ival, b.ival))
	}
	// disjoint operands: one is a multiple of 2^k, the other < 2^k
	if a.lo != nil && a.lo.Sign() >= 0 && b.lo != nil && b.lo.Sign() >= 0 {
		if b.hi != nil && uint(b.hi.BitLen()) <= tzOf(a) {
			return f.Add(a, b)
		}
		if a.hi != nil && uint(a.hi.BitLen()) <= tzOf(b) {
			return f.Add(a, b)
		}
	}
	if b.ival != nil {
		// a | c = a + c - (a & c)
		return f.Sub(f.Add(a, b), c.bitAnd(a, b, bits, pos))
	}
	if a == b {
		return a
	}
	c.note("bitwise OR of two non-constant, not provably disjoint operands abstracted at %s", pos)
	f.DeclareFun("bor", []Sort{SInt, SInt}, SInt)
	r := f.App("bor", SInt, a, b)
	c.addAxiom("(assert (forall ((x Int) (y Int)) (! (=> (and (>= x 0) (>= y 0)) (and (>= (bor x y) x) (>= (bor x y) y) (<= (bor x y) (+ x y)))) :pattern ((bor x y)))))")
	return r
}
