package govc

import (
	"fmt"
	"go/token"
	"go/types"
	"strings"

	"golang.org/x/tools/go/ssa"
)

// loopVarValue finds the current value of a named local at the loop header.
func (fr *frame) loopVarValue(li *loopInfo, name string, st *State, phiVal func(*ssa.Phi) Value) (Value, bool) {
	return fr.loopVarValueT(li, name, "", st, phiVal)
}

// typeMatches reports whether the Go variable obj can be the loop variable declared with type text decl
// (as written in the contract, with package names as qualifiers). Unknown / empty declarations match.
func (fr *frame) typeMatches(obj types.Object, decl string) bool {
	if decl == "" || obj == nil {
		return true
	}
	q := func(p *types.Package) string {
		if fr.fn.Pkg != nil && p == fr.fn.Pkg.Pkg {
			return ""
		}
		return p.Name()
	}
	norm := func(x string) string { return strings.ReplaceAll(strings.ReplaceAll(x, " ", ""), "interface{}", "any") }
	return norm(types.TypeString(obj.Type(), q)) == norm(decl)
}

func (fr *frame) loopVarValueT(li *loopInfo, name, decl string, st *State, phiVal func(*ssa.Phi) Value) (Value, bool) {
	// several variables of the function may share the name: prefer those whose type is the declared one
	anyTyped := false
	if decl != "" {
		for _, b := range fr.fn.Blocks {
			for _, ins := range b.Instrs {
				if dr, ok := ins.(*ssa.DebugRef); ok {
					if obj := dr.Object(); obj != nil && obj.Name() == name && fr.typeMatches(obj, decl) {
						anyTyped = true
					}
				}
			}
		}
	}
	// a declaration with a basic type (`i int`) never means a variable of another type that happens to
	// carry the name (a receiver called i after the counter was renamed)
	declBasic := false
	if decl != "" {
		if tn, ok := types.Universe.Lookup(strings.TrimSpace(decl)).(*types.TypeName); ok && tn != nil {
			declBasic = true
		}
	}
	okObj := func(obj types.Object) bool {
		if obj == nil || obj.Name() != name {
			return false
		}
		if declBasic && !fr.typeMatches(obj, decl) {
			return false
		}
		return !anyTyped || fr.typeMatches(obj, decl)
	}
	// the index variable of a range loop: its value is (hidden counter)+1, computed in the header
	for b := range li.body {
		for _, ins := range b.Instrs {
			dr, ok := ins.(*ssa.DebugRef)
			if !ok || dr.IsAddr || !okObj(dr.Object()) {
				continue
			}
			if bo, ok := dr.X.(*ssa.BinOp); ok && bo.Block() == li.header && bo.Op == token.ADD {
				if phi, ok := bo.X.(*ssa.Phi); ok && phi.Block() == li.header && phi.Comment == "rangeindex" {
					if k, ok := bo.Y.(*ssa.Const); ok && k.Value != nil && k.Int64() == 1 {
						if pv, ok := phiVal(phi).(*Term); ok {
							return fr.c.f.Add(pv, fr.c.f.Int(1)), true
						}
					}
				}
			}
		}
	}
	// phi at the header named like the variable
	for _, ins := range li.header.Instrs {
		phi, ok := ins.(*ssa.Phi)
		if !ok {
			break
		}
		if phi.Comment == name {
			return phiVal(phi), true
		}
	}
	// an address-taken local: its cell is found through any debug reference to its address
	for _, b := range fr.fn.Blocks {
		for _, ins := range b.Instrs {
			if dr, ok := ins.(*ssa.DebugRef); ok && dr.IsAddr {
				if obj := dr.Object(); okObj(obj) {
					if al, ok := dr.X.(*ssa.Alloc); ok {
						switch a := fr.operand(al, st).(type) {
						case *LV:
							return fr.c.load(st, a), true
						case *StaticCell:
							return a.val, true
						case *Term:
							return a, true
						}
					}
				}
			}
		}
	}
	// otherwise: a value defined outside the loop, found through debug references
	var best ssa.Value
	var bestAddr bool
	for _, b := range fr.fn.Blocks {
		if !b.Dominates(li.header) || li.body[b] && b != li.header {
			continue
		}
		for _, ins := range b.Instrs {
			if dr, ok := ins.(*ssa.DebugRef); ok {
				if obj := dr.Object(); okObj(obj) {
					if b == li.header {
						continue
					}
					best = dr.X
					bestAddr = dr.IsAddr
				}
			}
		}
	}
	if best == nil {
		// parameters
		for _, p := range fr.fn.Params {
			if p.Name() == name && (p.Object() == nil || okObj(p.Object())) {
				return fr.regs[p], true
			}
		}
		// The variable was renamed (or a counting loop became a range loop): fall back to what the
		// declaration can only mean. (1) `name int`: the loop's counter, if it has exactly one.
		if decl == "int" {
			var cands []Value
			for _, ins := range li.header.Instrs {
				phi, ok := ins.(*ssa.Phi)
				if !ok {
					break
				}
				if bt, ok := phi.Type().Underlying().(*types.Basic); !ok || bt.Kind() != types.Int {
					continue
				}
				if fr.monotone(li, phi) == 0 {
					continue
				}
				pv, ok := phiVal(phi).(*Term)
				if !ok {
					continue
				}
				if phi.Comment == "rangeindex" {
					cands = append(cands, fr.c.f.Add(pv, fr.c.f.Int(1)))
				} else {
					cands = append(cands, pv)
				}
			}
			if len(cands) == 1 {
				// The contract's variable is a ghost name for "where the loop is"; the renamed counter may
				// be off by one against it (end = last+1). Engine.LoopShift selects the reading; any reading
				// under which every obligation is discharged is a proof.
				fr.c.counterFallback = true
				sh := fr.c.e.LoopShift
				if sh != 0 {
					fr.c.note("loop %d of %s: contract variable %q not found by name; bound to the loop's only counter %+d", li.ordinal, fr.fn.Name(), name, sh)
					return fr.c.f.Add(cands[0].(*Term), fr.c.f.Int(int64(sh))), true
				}
				fr.c.note("loop %d of %s: contract variable %q not found by name; bound to the loop's only counter", li.ordinal, fr.fn.Name(), name)
				return cands[0], true
			}
		}
		// (2) a unique local of exactly the declared type, defined before the loop
		if decl != "" && decl != "int" {
			var cand types.Object
			n := 0
			seenObj := map[types.Object]bool{}
			for _, b := range fr.fn.Blocks {
				for _, ins := range b.Instrs {
					if dr, ok := ins.(*ssa.DebugRef); ok {
						obj := dr.Object()
						if obj == nil || seenObj[obj] || !fr.typeMatches(obj, decl) {
							continue
						}
						if _, isVar := obj.(*types.Var); !isVar {
							continue
						}
						seenObj[obj] = true
						cand = obj
						n++
					}
				}
			}
			if n == 1 && cand.Name() != name {
				fr.c.note("loop %d of %s: contract variable %q not found by name; bound to %q, the only local of type %s", li.ordinal, fr.fn.Name(), name, cand.Name(), decl)
				return fr.loopVarValueT(li, cand.Name(), decl, st, phiVal)
			}
		}
		return nil, false
	}
	v := fr.operand(best, st)
	if bestAddr {
		switch a := v.(type) {
		case *LV:
			return fr.c.load(st, a), true
		case *StaticCell:
			return a.val, true
		case *Term:
			// pointer to struct/array local
			return a, true
		}
	}
	return v, true
}

func (fr *frame) loopArgs(li *loopInfo, st *State, phiVal func(*ssa.Phi) Value) ([]Value, bool) {
	args := append([]Value{}, fr.args...)
	if li.spec == nil {
		return args, true
	}
	for _, v := range li.spec.Vars {
		val, ok := fr.loopVarValueT(li, v.Name, v.Type, st, phiVal)
		if !ok {
			fr.c.unsupported("loop %d of %s: cannot find variable %q", li.ordinal, fr.fn.Name(), v.Name)
			return nil, false
		}
		args = append(args, val)
	}
	return args, true
}

// evalClause evaluates a synthetic clause function (ghost) in state st with Old() referring to oldSt.
func (c *FnCtx) evalClause(fnName string, pkgPath string, args []Value, st *State, oldSt *State) (*Term, bool) {
	fn := c.lookupSynthetic(pkgPath, fnName)
	if fn == nil {
		c.unsupported("synthetic function %s not found", fnName)
		return c.f.True(), false
	}
	// a dependency may return a pointer of an unexported type where the contract header can only name an
	// interface: such arguments are presented to the clause as (non-nil) interface values
	for i, p := range fn.Params {
		if i >= len(args) {
			break
		}
		if _, isIf := p.Type().Underlying().(*types.Interface); isIf {
			if t, ok := args[i].(*Term); ok && t.sort == SInt {
				if args2 := append([]Value{}, args...); true {
					args2[i] = c.f.MkIf(c.f.Int(999983), t)
					args = args2
				}
			}
		}
	}
	v := c.evalGhost(fn, args, st, oldSt)
	t, ok := v.(*Term)
	if !ok {
		c.unsupported("clause %s did not evaluate to a term", fnName)
		return c.f.True(), false
	}
	return t, true
}

func (c *FnCtx) lookupSynthetic(pkgPath, name string) *ssa.Function {
	sp := c.e.SSAPkgs[pkgPath]
	if sp == nil {
		return nil
	}
	return sp.Func(name)
}

// evalGhost executes a pure function in ghost mode. Old(x) inside it denotes x evaluated with heap oldSt
// (dual evaluation: a recording pass on oldSt's heap, then the real pass on st).
func (c *FnCtx) evalGhost(fn *ssa.Function, args []Value, st *State, oldSt *State) Value {
	c.ghost++
	defer func() { c.ghost-- }()
	savedOld, savedMode := c.oldVals, c.oldMode
	defer func() { c.oldVals, c.oldMode = savedOld, savedMode }()
	if oldSt != nil && fnUsesOld(fn) {
		c.oldVals = map[ssa.Instruction]Value{}
		c.oldBinders = map[*ssa.Call]*Term{}
		c.oldMode = 1
		pre := &State{R: st.R, P: st.P, heap: map[string]*Term{}, alpha: st.alpha}
		for k, v := range oldSt.heap {
			pre.heap[k] = v
		}
		c.exec(fn, args, nil, pre)
		st.R, st.P = pre.R, pre.P
		c.oldMode = 2
	} else {
		c.oldMode = 0
	}
	res, out := c.exec(fn, args, nil, st)
	if out != nil {
		st.R, st.P = out.R, out.P
		st.heap = out.heap
		st.alpha = out.alpha
	}
	return res
}

var usesOldCache = map[*ssa.Function]bool{}

func fnUsesOld(fn *ssa.Function) bool {
	if v, ok := usesOldCache[fn]; ok {
		return v
	}
	usesOldCache[fn] = false
	res := false
	for _, b := range fn.Blocks {
		for _, ins := range b.Instrs {
			if call, ok := ins.(*ssa.Call); ok {
				if callee := call.Call.StaticCallee(); callee != nil {
					k := FnKey(callee)
					if k == VspecPath+".Old" || k == VspecPath+".Old2" || k == VspecPath+".Old3" || k == VspecPath+".MapSame" || k == VspecPath+".MapSameExcept" {
						res = true
					}
				}
			}
			if mc, ok := ins.(*ssa.MakeClosure); ok {
				if fnUsesOld(mc.Fn.(*ssa.Function)) {
					res = true
				}
			}
		}
	}
	for _, an := range fn.AnonFuncs {
		if fnUsesOld(an) {
			res = true
		}
	}
	usesOldCache[fn] = res
	return res
}

// enterLoop: check invariants on entry, havoc, assume invariants.
func (fr *frame) enterLoop(li *loopInfo, entry *State) *State {
	c := fr.c
	f := c.f
	pkg := ""
	if fr.contract != nil {
		pkg = fr.contract.PkgPath
	}
	// entry values of the header phis
	entryPhi := func(phi *ssa.Phi) Value { return fr.regs[phi] }
	if li.spec != nil && c.dry == 0 {
		args, ok := fr.loopArgs(li, entry, entryPhi)
		if ok {
			for k, inv := range li.spec.Invs {
				cond, _ := c.evalClause(inv.FnName, pkg, args, entry, fr.entry)
				fr.obligeClause(entry, "inv-init", cond, inv, fmt.Sprintf("loop %d invariant %d holds on entry", li.ordinal, k))
			}
		}
	}
	// dry run: which heap arrays does the body write, and where?
	writes := fr.dryRun(li, entry)
	st := entry.clone()
	// havoc phis
	li.mono = nil
	for _, ins := range li.header.Instrs {
		phi, ok := ins.(*ssa.Phi)
		if !ok {
			break
		}
		if ev, isT := fr.regs[phi].(*Term); isT && ev.sort == SInt {
			if dir := fr.monotone(li, phi); dir != 0 {
				li.mono = append(li.mono, monoRec{phi: phi, entry: ev, dir: dir})
			}
		}
		if _, isTerm := fr.regs[phi].(*Term); !isTerm {
			if _, ok := c.sortOf(phi.Type()); !ok {
				c.unsupported("loop-carried static value %s in %s", phi.Name(), fr.fn.Name())
				continue
			}
		}
		fr.regs[phi] = c.freshValue(st, "loop."+phi.Comment+"."+phi.Name(), phi.Type())
	}
	for _, m := range li.mono {
		cur := fr.regs[m.phi].(*Term)
		if m.dir > 0 {
			c.assume(st, f.Le(m.entry, cur))
		} else {
			c.assume(st, f.Le(cur, m.entry))
		}
	}
	// havoc heap
	if len(writes) > 0 {
		st.alpha = f.Fresh("alpha.loop", SInt)
		c.assume(st, f.Le(entry.alpha, st.alpha))
	}
	for key, refs := range writes {
		sort := c.heapSort[key]
		old := c.heapGet(entry, key, sort)
		nw := f.Fresh("H.loop."+key, sort)
		st.heap[key] = nw
		if refs == nil {
			c.note("loop %d of %s: heap component %s havocked without frame (write target depends on the iteration)", li.ordinal, fr.fn.Name(), key)
			continue
		}
		r := f.BoundVar("r", SInt)
		var ne []*Term
		ne = append(ne, f.Le(r, entry.alpha))
		for _, w := range refs {
			ne = append(ne, f.Not(f.Eq(r, w)))
		}
		sel := f.Select(nw, r)
		c.assume(st, f.Forall([]*Term{r}, f.Implies(f.And(ne...), f.Eq(sel, f.Select(old, r))), []*Term{sel}))
		// region lengths never change
		if len(key) > 2 && key[:2] == "M|" {
			for _, w := range refs {
				c.assume(st, f.Eq(f.SLen(f.Select(nw, w)), f.SLen(f.Select(old, w))))
			}
		}
	}
	// assume invariants
	cur := func(phi *ssa.Phi) Value { return fr.regs[phi] }
	if li.spec != nil {
		args, ok := fr.loopArgs(li, st, cur)
		if ok {
			for _, inv := range li.spec.Invs {
				cond, _ := c.evalClause(inv.FnName, pkg, args, st, fr.entry)
				c.assume(st, cond)
			}
			if li.spec.Dec != nil {
				fn := c.lookupSynthetic(pkg, li.spec.Dec.FnName)
				if fn != nil {
					if d, ok := c.evalGhost(fn, args, st, fr.entry).(*Term); ok {
						li.dec0 = d
					}
				}
			}
		}
	}
	if li.spec == nil || li.spec.Dec == nil {
		li.dec0 = nil
		fr.autoVariant(li, st)
	}
	fr.autoRangeInv(li, st)
	return st
}

// autoRangeInv: the compiler's range-over-slice idiom  i = phi(-1, i+1); if i+1 < n { body } else { exit }
// with n computed before the loop keeps i < n (or n < 0): it holds on entry (i = -1) and the back edge
// carries i+1, which the header test has just bounded. Assumed at the loop head so that i+1 cannot wrap.
func (fr *frame) autoRangeInv(li *loopInfo, st *State) {
	h := li.header
	if len(h.Instrs) == 0 {
		return
	}
	ifi, ok := h.Instrs[len(h.Instrs)-1].(*ssa.If)
	if !ok || len(h.Succs) != 2 || li.body[h.Succs[1]] {
		return
	}
	bo, ok := ifi.Cond.(*ssa.BinOp)
	if !ok || bo.Op.String() != "<" {
		return
	}
	x, ok := bo.X.(*ssa.BinOp)
	if !ok || x.Op.String() != "+" || x.Block() != h {
		return
	}
	phi, ok := x.X.(*ssa.Phi)
	if !ok || phi.Block() != h {
		return
	}
	if k, ok := x.Y.(*ssa.Const); !ok || k.Value == nil || k.Int64() != 1 {
		return
	}
	if ins, ok := bo.Y.(ssa.Instruction); ok && li.body[ins.Block()] {
		return
	}
	for k, e := range phi.Edges {
		pred := h.Preds[k]
		if li.body[pred] {
			if e != ssa.Value(x) {
				return
			}
		} else {
			cst, ok := e.(*ssa.Const)
			if !ok || cst.Value == nil || cst.Int64() != -1 {
				return
			}
		}
	}
	i, ok1 := fr.regs[phi].(*Term)
	n, ok2 := fr.operand(bo.Y, st).(*Term)
	if !ok1 || !ok2 {
		return
	}
	f := fr.c.f
	fr.c.assume(st, f.Or(f.Lt(i, n), f.Lt(n, f.Int(0))))
}

// autoVariant recognises counting loops: header condition `x < n` where x is a header phi i or i+1
// (range loops) and n is loop-invariant; the phi is incremented by a positive constant on the back edge.
func (fr *frame) autoVariant(li *loopInfo, st *State) {
	li.autoPhi, li.autoBound, li.autoLower = nil, nil, nil
	h := li.header
	if len(h.Instrs) == 0 {
		return
	}
	ifi, ok := h.Instrs[len(h.Instrs)-1].(*ssa.If)
	if !ok {
		return
	}
	bo, ok := ifi.Cond.(*ssa.BinOp)
	if !ok || bo.Op.String() != "<" {
		return
	}
	var phi *ssa.Phi
	var add int64
	switch x := bo.X.(type) {
	case *ssa.Phi:
		phi = x
	case *ssa.BinOp:
		if p, ok := x.X.(*ssa.Phi); ok && x.Op.String() == "+" {
			if k, ok := x.Y.(*ssa.Const); ok && k.Value != nil {
				phi = p
				add = k.Int64()
			}
		}
	}
	if phi == nil || phi.Block() != h {
		return
	}
	i, ok1 := fr.regs[phi].(*Term)
	if !ok1 {
		return
	}
	var n *Term
	li.autoBoundV = nil
	if ins, ok := bo.Y.(ssa.Instruction); ok && li.body[ins.Block()] {
		// bound recomputed in the header (e.g. len(r.field)): evaluate it now and again at the back edge
		if ins.Block() != h {
			return
		}
		v, ok := fr.reEval(bo.Y, st, li, nil, 0)
		if !ok {
			return
		}
		n = v
		li.autoBoundV = bo.Y
	} else {
		v, ok2 := fr.operand(bo.Y, st).(*Term)
		if !ok2 {
			return
		}
		n = v
	}
	li.autoPhi, li.autoBound, li.autoAdd = phi, n, add
	li.dec0 = fr.c.f.Sub(n, fr.c.f.Add(i, fr.c.f.Int(add)))
}

// reEval evaluates a small pure expression rooted at v (loads, field addresses, len, arithmetic on header
// phis) in state st; next, when non-nil, supplies the values of the header phis.
func (fr *frame) reEval(v ssa.Value, st *State, li *loopInfo, next func(*ssa.Phi) Value, depth int) (*Term, bool) {
	c := fr.c
	if depth > 6 {
		return nil, false
	}
	ins, isIns := v.(ssa.Instruction)
	if !isIns || !li.body[ins.Block()] {
		t, ok := fr.operand(v, st).(*Term)
		return t, ok
	}
	switch x := v.(type) {
	case *ssa.Phi:
		if x.Block() == li.header {
			if next != nil {
				t, ok := next(x).(*Term)
				return t, ok
			}
			t, ok := fr.regs[x].(*Term)
			return t, ok
		}
	case *ssa.UnOp:
		if x.Op.String() == "*" {
			if fa, ok := x.X.(*ssa.FieldAddr); ok {
				base, ok := fr.reEval(fa.X, st, li, next, depth+1)
				if !ok {
					return nil, false
				}
				stT := fa.X.Type().Underlying().(*types.Pointer).Elem()
				si := c.structInfoOf(stT)
				sf := &si.fields[fa.Field]
				if sf.kind != 0 {
					return nil, false
				}
				return c.load(st, c.fieldLV(si, sf, base)), true
			}
		}
	case *ssa.Call:
		if b, ok := x.Call.Value.(*ssa.Builtin); ok && b.Name() == "len" && len(x.Call.Args) == 1 {
			a, ok := fr.reEval(x.Call.Args[0], st, li, next, depth+1)
			if !ok {
				return nil, false
			}
			switch x.Call.Args[0].Type().Underlying().(type) {
			case *types.Slice:
				return c.f.SlLen(a), true
			case *types.Basic:
				return c.f.SLen(a), true
			}
		}
	}
	return nil, false
}

func (fr *frame) obligeClause(st *State, kind string, cond *Term, cl *Clause, text string) {
	c := fr.c
	n := len(c.obls)
	c.oblige(st, kind, cond, cl.Pos, text+": "+cl.Text)
	if len(c.obls) > n {
		c.obls[len(c.obls)-1].Props = cl.Props
		c.obls[len(c.obls)-1].Clause = cl
	}
}

// dryRun executes the loop body with the header phis havocked to learn which heap components the body
// writes and where. Heap components found to be written are havocked too and the run is repeated until
// the set is stable, so that addresses read from unwritten components stay loop-independent terms.
// The result maps heap key -> list of written pre-existing references (nil list = iteration dependent).
func (fr *frame) dryRun(li *loopInfo, entry *State) map[string][]*Term {
	c := fr.c
	f := c.f
	havoc := map[string]bool{}
	var log []writeRec
	var marker int
	var dryAlpha0 *Term
	for round := 0; round < 4; round++ {
		c.dry++
		savedLog := c.writeLog
		c.writeLog = nil
		savedRegs := fr.regs
		savedEdge := fr.edge
		savedRets := fr.rets
		savedUnsup := c.unsup
		fr.regs = make(map[ssa.Value]Value, len(savedRegs))
		for k, v := range savedRegs {
			fr.regs[k] = v
		}
		fr.edge = map[[2]int]*State{}
		marker = f.fresh
		st := entry.clone()
		for _, ins := range li.header.Instrs {
			phi, ok := ins.(*ssa.Phi)
			if !ok {
				break
			}
			if _, ok := c.sortOf(phi.Type()); ok {
				fr.regs[phi] = c.freshValue(st, "dry."+phi.Name(), phi.Type())
			}
		}
		for k := range havoc {
			st.heap[k] = f.Fresh("dryH", c.heapSort[k])
		}
		st.alpha = f.Fresh("dryAlpha", SInt)
		dryAlpha0 = st.alpha
		c.assume(st, f.Le(entry.alpha, st.alpha))
		var order []*ssa.BasicBlock
		started := false
		for _, b := range fr.order {
			if b == li.header {
				started = true
			}
			if started && li.body[b] {
				order = append(order, b)
			}
		}
		fr.runBlocks(order, st, li.body)
		c.unsup = savedUnsup
		log = c.writeLog
		c.writeLog = savedLog
		fr.regs = savedRegs
		fr.edge = savedEdge
		fr.rets = savedRets
		c.dry--
		grew := false
		for _, w := range log {
			if !havoc[w.key] {
				havoc[w.key] = true
				grew = true
			}
		}
		if !grew {
			break
		}
	}
	writes := map[string][]*Term{}
	unknown := map[string]bool{}
	for _, w := range log {
		if unknown[w.key] {
			continue
		}
		if c.dependsOnFreshAfter(w.ref, marker) {
			// allocated inside the loop body (relative to the allocation counter at the loop head)?
			if c.isAllocAfter(w.ref, dryAlpha0) {
				if _, ok := writes[w.key]; !ok {
					writes[w.key] = []*Term{}
				}
				continue
			}
			unknown[w.key] = true
			writes[w.key] = nil
			continue
		}
		dup := false
		for _, r := range writes[w.key] {
			if r == w.ref {
				dup = true
			}
		}
		if !dup {
			writes[w.key] = append(writes[w.key], w.ref)
		}
	}
	if c.dry > 0 {
		c.writeLog = append(c.writeLog, log...)
	}
	return writes
}

// isAllocAfter: ref is syntactically base+k (k>=1) where base is the given alpha term (an allocation made after it).
func (c *FnCtx) isAllocAfter(ref, alpha *Term) bool {
	b, off := splitOff(ref)
	ab, aoff := splitOff(alpha)
	return b == ab && off.Cmp(aoff) > 0
}

func (c *FnCtx) dependsOnFreshAfter(t *Term, marker int) bool {
	seen := map[int]bool{}
	var walk func(t *Term) bool
	walk = func(t *Term) bool {
		if seen[t.id] {
			return false
		}
		seen[t.id] = true
		if t.op == "const" {
			// fresh names are prefix!N
			for i := len(t.name) - 1; i >= 0; i-- {
				if t.name[i] == '!' {
					n := 0
					fmt.Sscanf(t.name[i+1:], "%d", &n)
					return n > marker
				}
				if t.name[i] < '0' || t.name[i] > '9' {
					break
				}
			}
			return false
		}
		for _, a := range t.args {
			if walk(a) {
				return true
			}
		}
		return false
	}
	return walk(t)
}

// backEdge: the invariant is preserved and the variant decreases.
func (fr *frame) backEdge(li *loopInfo, from *ssa.BasicBlock, st *State) {
	c := fr.c
	f := c.f
	if c.dry > 0 {
		return
	}
	pkg := ""
	if fr.contract != nil {
		pkg = fr.contract.PkgPath
	}
	// index of from in preds
	pi := -1
	for i, p := range li.header.Preds {
		if p == from {
			pi = i
		}
	}
	next := func(phi *ssa.Phi) Value { return fr.operand(phi.Edges[pi], st) }
	for _, m := range li.mono {
		if nv, ok := next(m.phi).(*Term); ok {
			cond := f.Le(m.entry, nv)
			if m.dir < 0 {
				cond = f.Le(nv, m.entry)
			}
			c.oblige(st, "inv-pres", cond, c.e.pos(m.phi.Pos()), fmt.Sprintf("loop %d: automatic monotonicity invariant of %s", li.ordinal, m.phi.Comment))
		}
	}
	if li.spec != nil {
		args, ok := fr.loopArgs(li, st, next)
		if ok {
			for k, inv := range li.spec.Invs {
				cond, _ := c.evalClause(inv.FnName, pkg, args, st, fr.entry)
				fr.obligeClause(st, "inv-pres", cond, inv, fmt.Sprintf("loop %d invariant %d is preserved", li.ordinal, k))
			}
			if li.spec.Dec != nil && li.dec0 != nil {
				fn := c.lookupSynthetic(pkg, li.spec.Dec.FnName)
				if d, ok := c.evalGhost(fn, args, st, fr.entry).(*Term); ok {
					c.oblige(st, "variant", f.And(f.Le(f.Int(0), li.dec0), f.Lt(d, li.dec0)), li.spec.Dec.Pos, fmt.Sprintf("loop %d variant decreases: %s", li.ordinal, li.spec.Dec.Text))
				}
				return
			}
		}
	}
	if li.autoPhi != nil && li.dec0 != nil {
		nv, ok := next(li.autoPhi).(*Term)
		if ok {
			bound := li.autoBound
			if li.autoBoundV != nil {
				nb, ok2 := fr.reEval(li.autoBoundV, st, li, next, 0)
				if !ok2 {
					c.oblige(st, "variant", f.False(), c.e.pos(li.header.Instrs[0].Pos()), fmt.Sprintf("loop %d: bound of the counting loop cannot be re-evaluated", li.ordinal))
					return
				}
				bound = nb
			}
			d := f.Sub(bound, f.Add(nv, f.Int(li.autoAdd)))
			c.oblige(st, "variant", f.And(f.Le(f.Int(0), li.dec0), f.Lt(d, li.dec0)), c.e.pos(li.header.Instrs[0].Pos()), fmt.Sprintf("loop %d terminates (automatic variant bound - counter)", li.ordinal))
		}
		return
	}
	if li.spec != nil && li.spec.NonTerm {
		c.note("loop %d of %s is declared nonterminating: termination is not claimed", li.ordinal, fr.fn.Name())
		return
	}
	c.oblige(st, "variant", f.False(), c.e.pos(li.header.Instrs[len(li.header.Instrs)-1].Pos()), fmt.Sprintf("loop %d of %s has no variant (termination not shown)", li.ordinal, fr.fn.Name()))
}

type monoRec struct {
	phi   *ssa.Phi
	entry *Term
	dir   int
}

// monotone reports +1 / -1 when every back-edge value of phi is phi plus / minus a positive constant.
func (fr *frame) monotone(li *loopInfo, phi *ssa.Phi) int {
	dir := 0
	for pi, p := range li.header.Preds {
		if !li.backs[p] {
			continue
		}
		bo, ok := phi.Edges[pi].(*ssa.BinOp)
		if !ok || bo.X != ssa.Value(phi) {
			return 0
		}
		k, ok := bo.Y.(*ssa.Const)
		if !ok || k.Value == nil || k.Int64() <= 0 {
			return 0
		}
		d := 0
		switch bo.Op.String() {
		case "+":
			d = 1
		case "-":
			d = -1
		default:
			return 0
		}
		if dir != 0 && dir != d {
			return 0
		}
		dir = d
	}
	return dir
}

var _ = types.Typ
