package govc

import (
	"bufio"
	"encoding/json"
	"flag"
	"fmt"
	"os"
	"path/filepath"
	"sort"
	"strconv"
	"strings"
	"sync"
	"time"
)

type knownFinding struct {
	Property   string
	Obligation string
	Text       string
}

func loadKnownFindings(path string) []knownFinding {
	var out []knownFinding
	fh, err := os.Open(path)
	if err != nil {
		return nil
	}
	defer fh.Close()
	sc := bufio.NewScanner(fh)
	for sc.Scan() {
		l := strings.TrimSpace(sc.Text())
		if !strings.HasPrefix(l, "known:") {
			continue
		}
		kf := knownFinding{}
		rest := strings.TrimSpace(l[6:])
		for _, tok := range strings.Fields(rest) {
			if strings.HasPrefix(tok, "property=") {
				kf.Property = tok[9:]
			} else if strings.HasPrefix(tok, "obligation=") {
				kf.Obligation = tok[11:]
			}
		}
		kf.Text = rest
		out = append(out, kf)
	}
	return out
}

type evidence struct {
	PropertyID  string                 `json:"property_id"`
	Tier        string                 `json:"tier"`
	Seed        int                    `json:"seed"`
	Level       string                 `json:"level"`
	Coverage    map[string]interface{} `json:"coverage"`
	Assumptions []string               `json:"assumptions"`
	WallS       float64                `json:"wall_s"`
	Violations  int                    `json:"violations"`
}

// CmdCheck implements `govc check <property>`.
func CmdCheck(args []string) int {
	fs := flag.NewFlagSet("check", flag.ExitOnError)
	repo := fs.String("repo", "/repo", "repository to verify")
	verif := fs.String("verif", "/verif", "verification directory")
	tier := fs.String("tier", "", "quick or thorough")
	timeout := fs.Duration("timeout", 0, "per-race solver timeout")
	noEvidence := fs.Bool("no-evidence", false, "do not write evidence (self-tests on scratch copies)")
	quiet := fs.Bool("q", false, "less output")
	// allow the property id before flags
	var prop string
	if len(args) > 0 && !strings.HasPrefix(args[0], "-") {
		prop = args[0]
		args = args[1:]
	}
	fs.Parse(args)
	if prop == "" && fs.NArg() > 0 {
		prop = fs.Arg(0)
	}
	if prop == "" {
		fmt.Fprintln(os.Stderr, "usage: govc check <property-id> [--tier quick|thorough]")
		return 2
	}
	if *tier == "" {
		*tier = os.Getenv("VERIF_TIER")
	}
	if *tier != "thorough" {
		*tier = "quick"
	}
	seed := 0
	if s := os.Getenv("VERIF_SEED"); s != "" {
		seed, _ = strconv.Atoi(s)
	}
	if *timeout == 0 {
		*timeout = 15 * time.Second
		if *tier == "thorough" {
			*timeout = 60 * time.Second
		}
	}
	t0 := time.Now()
	e, err := Load(*repo, *verif)
	if err != nil {
		fmt.Fprintln(os.Stderr, "govc: cannot load", *repo, "with contracts:", err)
		fmt.Printf("BROKEN-CHECK property=%s reason=load-failed\n", prop)
		return 2
	}
	// roots
	var roots []string
	for k, c := range e.Contracts.ByKey {
		if (c.Kind == "func" || c.Kind == "lemma") && has(c.Props, prop) {
			roots = append(roots, k)
		}
	}
	sort.Strings(roots)
	if len(roots) == 0 {
		fmt.Fprintf(os.Stderr, "govc: no contract or lemma is tagged with %s\n", prop)
		fmt.Printf("BROKEN-CHECK property=%s reason=no-obligations\n", prop)
		return 2
	}
	isRoot := map[string]bool{}
	for _, r := range roots {
		isRoot[r] = true
	}
	smtDir, _ := os.MkdirTemp("", "govc-smt-")
	if keep := os.Getenv("GOVC_KEEP"); keep != "" {
		smtDir = keep
		os.MkdirAll(keep, 0o755)
	} else {
		defer os.RemoveAll(smtDir)
	}

	results := map[string]*FnResult{}
	var order []string
	work := append([]string{}, roots...)
	var mu sync.Mutex
	for len(work) > 0 {
		batch := work
		work = nil
		var wg sync.WaitGroup
		for _, k := range batch {
			if _, done := results[k]; done {
				continue
			}
			results[k] = nil
			order = append(order, k)
			// VC generation is sequential (shared loader state); solving is parallel
			results[k] = e.VerifyFunction(k)
		}
		wg.Wait()
		for _, k := range batch {
			r := results[k]
			if r == nil {
				continue
			}
			for _, u := range r.Used {
				c := e.Contracts.ByKey[u]
				if c != nil && (c.Kind == "func" || c.Kind == "lemma") {
					if _, seen := results[u]; !seen {
						work = append(work, u)
					}
				}
			}
		}
	}
	sort.Strings(order)
	// discharge
	sel := func(k string) func(o *Obligation) bool {
		return func(o *Obligation) bool {
			if isRoot[k] {
				return has(o.Props, prop)
			}
			return !safetyKinds[o.Kind]
		}
	}
	var wg sync.WaitGroup
	vacuity := map[string]string{}
	for _, k := range order {
		r := results[k]
		if r == nil || r.Err != "" || r.Trusted {
			continue
		}
		wg.Add(1)
		go func(k string, r *FnResult) {
			defer wg.Done()
			r.Discharge(SolveOptions{Timeout: *timeout, Dir: smtDir, NeedTwo: *tier == "thorough", Select: sel(k)})
			if v := r.VacuityCheck(smtDir); v != "" {
				mu.Lock()
				vacuity[k] = v
				mu.Unlock()
			}
		}(k, r)
	}
	wg.Wait()
	// renamed loop counters: try the off-by-one readings of the contract's loop variable (sequential: VC
	// generation shares loader state)
	for _, k := range order {
		r := results[k]
		if r == nil || r.Err != "" || r.Trusted || !r.CounterFallback {
			continue
		}
		results[k] = e.Rebind(r, SolveOptions{Timeout: *timeout, Dir: smtDir, NeedTwo: *tier == "thorough", Select: sel(k)})
	}

	known := loadKnownFindings(filepath.Join(*verif, "known-findings.txt"))
	// collect
	total, discharged := 0, 0
	var samples []map[string]interface{}
	var undecided, violations, knownHits []string
	var fnsUnder, lemmas, trustedFns []string
	trusted := map[string]bool{}
	solverCount := map[string]int{}
	agreeTwo := 0
	solverSecs := 0.0
	exit := 0
	var notes []string
	for _, k := range order {
		r := results[k]
		sk := shortKey(k)
		if r.Err != "" {
			fmt.Printf("BROKEN-CHECK property=%s function=%s reason=%s\n", prop, sk, r.Err)
			exit = 2
			continue
		}
		if r.Trusted {
			trustedFns = append(trustedFns, sk+" (//@ trusted: "+r.Contract.Trusted+")")
			continue
		}
		if r.Contract.Kind == "lemma" {
			lemmas = append(lemmas, sk)
		} else {
			fnsUnder = append(fnsUnder, sk)
		}
		for _, u := range r.Used {
			c := e.Contracts.ByKey[u]
			if c != nil && (c.Kind == "ext" || c.Kind == "iface") {
				trusted["assumed contract of dependency "+u] = true
			}
			if c != nil && c.Trusted != "" {
				trusted["trusted (unverified) contract "+shortKey(u)+": "+c.Trusted] = true
			}
		}
		for _, a := range r.AxiomsUsed {
			if strings.HasPrefix(a, "assumed axiom") {
				trusted[a+" (a `lemma trusted`: its statement is taken as a fact)"] = true
			}
		}
		for _, in := range r.Intrinsics {
			trusted["semantics coded in the engine (not a contract): "+in] = true
		}
		for _, n := range r.Notes {
			notes = append(notes, sk+": "+n)
		}
		for _, n := range r.Unsup {
			notes = append(notes, sk+": outside the modelled subset: "+n)
		}
		selector := sel(k)
		for oi, o := range r.Obls {
			if !selector(o) {
				continue
			}
			total++
			if o.Result == "discharged" {
				discharged++
				solverCount[o.Solver]++
				if o.Agree >= 2 {
					agreeTwo++
				}
				solverSecs += o.Secs
				if len(samples) < 12 {
					samples = append(samples, map[string]interface{}{"obligation": o.Name, "verdict": "discharged", "solver": o.Solver, "seconds": round3(o.Secs), "at": o.Pos, "text": o.Text})
				}
				continue
			}
			// not discharged
			isKnown := false
			for _, kf := range known {
				if kf.Property == prop && kf.Obligation == o.Name {
					isKnown = true
					knownHits = append(knownHits, kf.Text)
					fmt.Printf("KNOWN-FINDING: property=%s %s\n", prop, kf.Text)
				}
			}
			if isKnown {
				total--
				continue
			}
			if len(r.Unsup) > 0 {
				// The function uses something the verifier has no model or contract for (listed below). The
				// obligation was discharged on the reference tree and no longer is: reported as a violation
				// (a failing input is still searched for), with the unmodelled construct named.
				fmt.Printf("   note: %s uses constructs without a model or contract: %s\n", sk, strings.Join(r.Unsup, "; "))
			}
			violations = append(violations, o.Name)
			rr := r.Refute(e, oi, smtDir)
			rp := writeReplay(*verif, prop, o, r, rr)
			fmt.Printf("   failed obligation %s at %s: %s\n      %s\n", o.Name, o.Pos, o.Text, o.Detail)
			if rr.Confirmed {
				fmt.Printf("      counterexample replayed on the real code: %s\n", strings.Join(rr.Inputs, "; "))
				fmt.Printf("VIOLATION property=%s replay=%s\n", prop, rp)
			} else {
				fmt.Printf("      no replayed counterexample: %s\n", rr.Reason)
				fmt.Printf("VIOLATION property=%s replay=%s no-failing-input-found\n", prop, rp)
			}
			exit1(&exit)
			samples = append(samples, map[string]interface{}{"obligation": o.Name, "verdict": o.Result, "detail": o.Detail, "at": o.Pos, "text": o.Text})
		}
		if v, ok := vacuity[k]; ok {
			fmt.Printf("BROKEN-CHECK property=%s function=%s reason=vacuity-guard: %s\n", prop, sk, v)
			exit = 2
		}
	}
	if total == 0 && exit == 0 {
		fmt.Printf("BROKEN-CHECK property=%s reason=zero-obligations\n", prop)
		exit = 2
	}
	wall := time.Since(t0).Seconds()
	// evidence
	var tb []string
	for k := range trusted {
		tb = append(tb, k)
	}
	sort.Strings(tb)
	tb = append(tb, trustedFns...)
	tb = append(tb,
		"VC generator /verif/internal/govc (symbolic execution of go/ssa, unverified)",
		"go/packages, go/types, go/ssa (golang.org/x/tools v0.29.0)",
		"SMT solvers z3 4.8.12, z3 5.1.0, cvc5 1.0 (first unsat wins in the quick tier)",
		"GOARCH=amd64: int is 64 bit; every slice/string length <= 2^48",
		"Go memory model for sequential code: slices as (array, offset, len, cap), append grows in place iff len+n <= cap")
	ev := evidence{PropertyID: prop, Tier: *tier, Seed: seed, Level: "proof", WallS: round3(wall), Violations: len(violations)}
	ev.Coverage = map[string]interface{}{
		"obligations":              total,
		"discharged":               discharged,
		"checker_cmd":              "bin/govc check " + prop + " --tier " + *tier,
		"trusted_base":             tb,
		"samples":                  samples,
		"functions_under_contract": fnsUnder,
		"lemmas":                   lemmas,
		"discharged_by_solver":     solverCount,
		"confirmed_by_two_solvers": agreeTwo,
		"solver_seconds":           round3(solverSecs),
		"undecided":                undecided,
		"known_findings":           knownHits,
		"violated":                 violations,
		"notes":                    notes,
		"integers":                 "Go integers are modelled exactly (wrap-around per type); no machine arithmetic is treated as mathematical, except `int` arithmetic inside contract expressions",
	}
	ev.Assumptions = tb
	if !*noEvidence {
		os.MkdirAll(filepath.Join(*verif, "evidence"), 0o755)
		b, _ := json.MarshalIndent(ev, "", " ")
		os.WriteFile(filepath.Join(*verif, "evidence", prop+".json"), append(b, '\n'), 0o644)
	}
	if !*quiet {
		fmt.Printf("property %s: %d functions, %d lemmas, %d/%d obligations discharged, %d undecided, %d known findings, %.1fs\n",
			prop, len(fnsUnder), len(lemmas), discharged, total, len(undecided), len(knownHits), wall)
	}
	return exit
}

func exit1(e *int) {
	if *e == 0 {
		*e = 1
	}
}

func round3(x float64) float64 { return float64(int(x*1000+0.5)) / 1000 }

func writeReplay(verif, prop string, o *Obligation, r *FnResult, rr *ReplayResult) string {
	dir := filepath.Join(verif, "replays", prop)
	os.MkdirAll(dir, 0o755)
	p := filepath.Join(dir, sanitize(o.Name)+".json")
	m := map[string]interface{}{
		"property":   prop,
		"obligation": o.Name,
		"kind":       o.Kind,
		"function":   r.Key,
		"at":         o.Pos,
		"text":       o.Text,
		"verdict":    o.Result,
		"solvers":    o.Detail,
		"replayed":   rr.Confirmed,
		"replay":     rr,
	}
	b, _ := json.MarshalIndent(m, "", " ")
	os.WriteFile(p, append(b, '\n'), 0o644)
	return p
}

// VacuityCheck makes sure the assumptions under which the function was verified are not
// contradictory: the exit condition (requires + path facts) must not be refutable.
func (r *FnResult) VacuityCheck(dir string) string {
	if r.Script == nil || r.CoverCond == nil {
		return ""
	}
	s := &Script{f: r.Script.f, Goals: []*Term{r.CoverCond}, Extra: r.Script.Extra}
	v, runs := RaceWith(solvers[1:], s.Text(nil, false), dir, sanitize(shortKey(r.Key))+"__cover", 2*time.Second, false)
	if v == "unsat" {
		var ds []string
		for _, rr := range runs {
			ds = append(ds, rr.Solver+":"+rr.Answer)
		}
		return "the function's assumptions (requires, axioms, prelude) are contradictory or no return is reachable: " + strings.Join(ds, " ")
	}
	return ""
}
