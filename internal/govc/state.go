package govc

import (
	"fmt"
	"go/types"
	"math/big"
	"sort"
	"strings"

	"golang.org/x/tools/go/ssa"
)

// ---------------------------------------------------------------------------
// Values

type Value interface{}

type Tuple []Value

type Closure struct {
	Fn       *ssa.Function
	Bindings []Value
}

type FuncVal struct{ Fn *ssa.Function }

// BuiltinVal is an ssa.Builtin used as a value.
type pathStep struct {
	field string // datatype selector (if non-empty)
	fsort Sort
	dt    *structInfo
	fidx  int
	index *Term // seq index (if field == "")
}

// LV is a statically resolved pointer to a non-struct location.
type LV struct {
	key  string // heap array key of the root
	ref  *Term
	elem bool  // root is an element of a region: idx is the absolute index
	idx  *Term
	path []pathStep
	typ  types.Type // pointee type
	sl   *Term      // for elements of a slice: the slice header and the index relative to it
	rel  *Term
}

type State struct {
	R     *Term
	P     *Term // path condition local to the current function activation (R = R at activation entry && P)
	heap  map[string]*Term
	alpha *Term
	// store-to-load forwarding for slice elements: (heap key, ref, index) -> value just stored there
	fwd map[string]*Term
}

func (s *State) clone() *State {
	h := make(map[string]*Term, len(s.heap))
	for k, v := range s.heap {
		h[k] = v
	}
	var fw map[string]*Term
	if len(s.fwd) > 0 {
		fw = make(map[string]*Term, len(s.fwd))
		for k, v := range s.fwd {
			fw[k] = v
		}
	}
	return &State{R: s.R, P: s.P, heap: h, alpha: s.alpha, fwd: fw}
}

func fwdKey(key string, ref, idx *Term) string { return fmt.Sprintf("%s#%d#%d", key, ref.id, idx.id) }

type Obligation struct {
	Name   string
	Kind   string
	Fn     string
	Props  []string
	Cond   *Term // must be valid
	Pos    string
	Text   string
	Clause *Clause
	Aux    *Term  // alloc obligations: the number of bytes requested
	Result string // discharged / failed / unknown
	Solver string
	Secs   float64
	Detail string
	Agree  int // number of solvers that answered unsat (thorough tier asks for two)
}

type structInfo struct {
	name   string // datatype name
	typ    *types.Struct
	tname  string // Go type string (key)
	fields []structField
	size   int // flattened size in reference slots
}

type structField struct {
	name string
	typ  types.Type
	sort Sort
	sel  string // datatype selector
	off  int    // offset of derived reference (struct / array typed fields), else 0
	kind int    // 0 plain, 1 embedded struct, 2 array
}

type writeRec struct {
	key string
	ref *Term
}

type assignLoc struct {
	key    string
	ref    *Term
	region bool
	lo, hi *Term // for regions: index range [lo,hi)
	whole  bool  // whole struct object: references [ref,hi)
	text   string
	lv     *LV
	sort   Sort
	si     *structInfo
	styp   types.Type
	cond   *Term // conditional frame (nil = unconditional)
}

type FnCtx struct {
	e         *Engine
	f         *TermFactory
	top       *ssa.Function
	contract  *Contract
	obls      []*Obligation
	kindCount map[string]int
	alpha0    *Term
	heap0     map[string]*Term
	heapSort  map[string]Sort
	assigns   []assignLoc
	hasFrame  bool
	counterFallback bool
	allocBnd  *Term
	notes     []string
	unsup     []string
	dry       int
	writeLog  []writeRec
	used      map[string]bool // contracts relied upon (callee keys)
	freshRefs map[int]bool
	structs   map[string]*structInfo
	depth     int
	ghost     int
	globals   map[*ssa.Global]*Term
	stack     []*ssa.Function
	oldVals   map[ssa.Instruction]Value // recorded Old() operands (pre-state pass)
	inQuant   int                        // >0 while a quantifier body is evaluated
	topDec    *Term                      // value of the function-level variant at entry (recursive lemmas)
	oldBinders map[*ssa.Call]*Term      // bound variables of quantifier call sites, shared by the two passes
	oldMode   int                       // 1 = recording pass, 2 = replay pass
	specFuns  map[string]bool
	curFn     string
	axiomsOn  bool
	lastGhost *LV
	asgOut    *[]assignLoc
	asgCond   *Term
	recDone   map[string]bool
	recBody   *ssa.Function
	termAxioms []*Term
	freshBase *Term
	ghostByType map[string][]ghostField
	inlinedExt  map[string]bool
	axiomsUsed  []string
	axiomName   map[int]string  // index in termAxioms -> origin (assumed axiom / proved lemma)
	intrinsics  map[string]bool // dependency functions whose semantics is coded in the engine
	coverCond   *Term
	unfolding   map[string]int
	revealed    map[string]bool
}

type ghostField struct {
	key  string
	sort Sort
	typ  types.Type
}

func (c *FnCtx) note(format string, a ...interface{}) {
	if c.dry > 0 {
		return
	}
	s := fmt.Sprintf(format, a...)
	for _, n := range c.notes {
		if n == s {
			return
		}
	}
	c.notes = append(c.notes, s)
}

func (c *FnCtx) unsupported(format string, a ...interface{}) {
	s := fmt.Sprintf(format, a...)
	for _, n := range c.unsup {
		if n == s {
			return
		}
	}
	c.unsup = append(c.unsup, s)
}

// ---------------------------------------------------------------------------
// Sorts

func isByte(t types.Type) bool {
	b, ok := t.Underlying().(*types.Basic)
	return ok && b.Kind() == types.Uint8
}

// isMathint: the ghost type vspec.Mathint denotes mathematical (unbounded) integers.
func isMathint(t types.Type) bool {
	n, ok := t.(*types.Named)
	return ok && n.Obj().Name() == "Mathint" && n.Obj().Pkg() != nil && n.Obj().Pkg().Path() == VspecPath
}

func intInfo(t types.Type) (bits uint, signed bool, ok bool) {
	if isMathint(t) {
		return 0, false, false
	}
	b, ok2 := t.Underlying().(*types.Basic)
	if !ok2 {
		return 0, false, false
	}
	switch b.Kind() {
	case types.Int8:
		return 8, true, true
	case types.Int16:
		return 16, true, true
	case types.Int32:
		return 32, true, true
	case types.Int64, types.Int:
		return 64, true, true
	case types.Uint8:
		return 8, false, true
	case types.Uint16:
		return 16, false, true
	case types.Uint32:
		return 32, false, true
	case types.Uint64, types.Uint, types.Uintptr:
		return 64, false, true
	case types.UntypedInt, types.UntypedRune:
		return 64, true, true
	}
	return 0, false, false
}

func intRange(bits uint, signed bool) (*big.Int, *big.Int) {
	if signed {
		return new(big.Int).Neg(pow2(bits - 1)), new(big.Int).Sub(pow2(bits-1), bi(1))
	}
	return bi(0), new(big.Int).Sub(pow2(bits), bi(1))
}

// sortOf maps a Go type to an SMT sort; ok=false for types only handled statically (non-struct pointers, funcs).
func (c *FnCtx) sortOf(t types.Type) (Sort, bool) {
	switch u := t.Underlying().(type) {
	case *types.Basic:
		switch {
		case u.Info()&types.IsBoolean != 0:
			return SBool, true
		case u.Info()&types.IsInteger != 0:
			return SInt, true
		case u.Info()&types.IsString != 0:
			return SB, true
		case u.Kind() == types.UnsafePointer:
			return SInt, true
		case u.Kind() == types.UntypedNil:
			return SInt, true
		}
		return "", false
	case *types.Pointer:
		switch u.Elem().Underlying().(type) {
		case *types.Struct, *types.Array:
			return SInt, true
		}
		return "", false
	case *types.Slice:
		return SSl, true
	case *types.Array:
		es, ok := c.sortOf(u.Elem())
		if !ok {
			return "", false
		}
		return c.seqSortFor(u.Elem(), es), true
	case *types.Struct:
		si := c.structInfoOf(t)
		if si == nil {
			return "", false
		}
		return Sort(si.name), true
	case *types.Interface:
		return SIf, true
	case *types.Map, *types.Chan:
		return SInt, true
	case *types.Signature:
		return "", false
	case *types.Tuple:
		return "", false
	}
	return "", false
}

func (c *FnCtx) seqSortFor(elemT types.Type, es Sort) Sort {
	if es == SInt {
		if isByte(elemT) {
			return c.f.RegisterSeq("B", SInt, true)
		}
		return c.f.RegisterSeq("I", SInt, false)
	}
	return c.seqSortOfElemSort(es)
}

func (c *FnCtx) seqSortOfElemSort(es Sort) Sort {
	switch es {
	case SInt:
		return c.f.RegisterSeq("I", SInt, false)
	case SBool:
		return c.f.RegisterSeq("O", SBool, false)
	case SSl:
		return c.f.RegisterSeq("S", SSl, false)
	case SIf:
		return c.f.RegisterSeq("F", SIf, false)
	case SB:
		return c.f.RegisterSeq("Y", SB, false)
	}
	s := string(es)
	if strings.HasPrefix(s, "Seq$") {
		return c.f.RegisterSeq("Q"+s[4:], es, false)
	}
	return c.f.RegisterSeq(sanitize(s), es, false)
}

func typeKey(t types.Type) string { return types.TypeString(t, nil) }

func (c *FnCtx) structInfoOf(t types.Type) *structInfo {
	st, ok := t.Underlying().(*types.Struct)
	if !ok {
		return nil
	}
	key := typeKey(t)
	if _, isNamed := t.(*types.Named); !isNamed {
		if _, isAlias := t.(*types.Alias); !isAlias {
			key = typeKey(st)
		}
	}
	if si, ok := c.structs[key]; ok {
		return si
	}
	name := "D$" + sanitize(shortTypeName(key))
	// make unique
	base := name
	for i := 2; ; i++ {
		clash := false
		for _, o := range c.structs {
			if o.name == name {
				clash = true
			}
		}
		if !clash {
			break
		}
		name = fmt.Sprintf("%s_%d", base, i)
	}
	si := &structInfo{name: name, typ: st, tname: key, size: 1}
	c.structs[key] = si // break cycles (pointer cycles do not recurse: pointers are Int)
	for i := 0; i < st.NumFields(); i++ {
		fl := st.Field(i)
		fs, ok := c.sortOf(fl.Type())
		if !ok {
			// statically-handled field type (func values, pointers to scalars): represent as opaque Int
			fs = SInt
			if _, isArr := fl.Type().Underlying().(*types.Array); isArr {
				fs = c.seqSortOfElemSort(SInt)
			}
		}
		sf := structField{name: fl.Name(), typ: fl.Type(), sort: fs, sel: fmt.Sprintf("%s.%s", name, sanitize(fl.Name()))}
		switch ft := fl.Type().Underlying().(type) {
		case *types.Struct:
			sub := c.structInfoOf(fl.Type())
			sf.kind = 1
			sf.off = si.size
			si.size += sub.size
		case *types.Array:
			_ = ft
			sf.kind = 2
			sf.off = si.size
			si.size++
		}
		si.fields = append(si.fields, sf)
	}
	var fs []string
	for _, sf := range si.fields {
		fs = append(fs, fmt.Sprintf("(|%s| %s)", sf.sel, sf.sort))
	}
	decl := fmt.Sprintf("(declare-datatypes ((|%s| 0)) (((|mk%s| %s))))", name, name, strings.Join(fs, " "))
	if len(fs) == 0 {
		decl = fmt.Sprintf("(declare-datatypes ((|%s| 0)) (((|mk%s|))))", name, name)
	}
	c.f.dtypes[name] = decl
	c.f.dtOrd = append(c.f.dtOrd, name)
	c.f.declOrd = append(c.f.declOrd, "dt:"+name)
	return si
}

func shortTypeName(k string) string {
	// github.com/cloudflare/pat-go/tokens.Token -> tokens.Token
	if i := strings.LastIndex(k, "/"); i >= 0 && !strings.Contains(k, "{") {
		return k[i+1:]
	}
	if len(k) > 40 {
		return fmt.Sprintf("anon%d", len(k))
	}
	return k
}

func (si *structInfo) field(name string) *structField {
	for i := range si.fields {
		if si.fields[i].name == name {
			return &si.fields[i]
		}
	}
	return nil
}

func (c *FnCtx) mkStruct(si *structInfo, vals []*Term) *Term {
	return c.f.App("|mk"+si.name+"|", Sort(si.name), vals...)
}

func (c *FnCtx) structSel(si *structInfo, i int, v *Term) *Term {
	if v.op == "|mk"+si.name+"|" {
		return v.args[i]
	}
	sf := si.fields[i]
	t := c.f.App("|"+sf.sel+"|", sf.sort, v)
	c.typeRange(t, sf.typ)
	return t
}

// typeRange attaches the range of integer-typed terms (a type invariant).
func (c *FnCtx) typeRange(t *Term, typ types.Type) {
	if t.sort != SInt || t.bound {
		if t.sort == SInt && t.bound {
			if bits, signed, ok := intInfo(typ); ok && t.lo == nil && t.hi == nil {
				t.lo, t.hi = intRange(bits, signed)
			}
		}
		return
	}
	if bits, signed, ok := intInfo(typ); ok {
		lo, hi := intRange(bits, signed)
		c.f.SetRange(t, lo, hi)
	}
}

// zero value of a type
func (c *FnCtx) zero(t types.Type) Value {
	s, ok := c.sortOf(t)
	if !ok {
		return nil
	}
	return c.zeroOfSort(s, t)
}

func (c *FnCtx) zeroOfSort(s Sort, t types.Type) *Term {
	switch s {
	case SInt:
		return c.f.Int(0)
	case SBool:
		return c.f.False()
	case SSl:
		z := c.f.Int(0)
		return c.f.MkSl(z, z, z, z)
	case SIf:
		return c.f.MkIf(c.f.Int(0), c.f.Int(0))
	}
	switch u := t.Underlying().(type) {
	case *types.Basic:
		if u.Info()&types.IsString != 0 {
			return c.f.SEmpty(SB)
		}
	case *types.Array:
		es, ok := c.sortOf(u.Elem())
		if !ok {
			return c.f.SRep(s, c.f.Int(0), c.f.Int(u.Len()))
		}
		return c.f.SRep(s, c.zeroOfSort(es, u.Elem()), c.f.Int(u.Len()))
	case *types.Struct:
		si := c.structInfoOf(t)
		vals := make([]*Term, len(si.fields))
		for i, sf := range si.fields {
			vals[i] = c.zeroOfSort(sf.sort, sf.typ)
		}
		return c.mkStruct(si, vals)
	}
	panic(fmt.Sprintf("zero: unhandled sort %s for %s", s, t))
}

// ---------------------------------------------------------------------------
// Heap access

func (c *FnCtx) heapGet(st *State, key string, sort Sort) *Term {
	if t, ok := st.heap[key]; ok {
		return t
	}
	if t, ok := c.heap0[key]; ok {
		return t
	}
	t := c.f.Const("H0$"+sanitize(key), sort)
	c.heap0[key] = t
	c.heapSort[key] = sort
	return t
}

func (c *FnCtx) heapSet(st *State, key string, v *Term, ref *Term) {
	if _, ok := c.heapSort[key]; !ok {
		c.heapSort[key] = v.sort
		if _, ok := c.heap0[key]; !ok {
			c.heap0[key] = c.f.Const("H0$"+sanitize(key), v.sort)
		}
	}
	st.heap[key] = v
	for k := range st.fwd {
		if strings.HasPrefix(k, key+"#") {
			delete(st.fwd, k)
		}
	}
	if c.dry > 0 && ref != nil {
		c.writeLog = append(c.writeLog, writeRec{key, ref})
	}
}

func fieldKey(si *structInfo, fname string) string { return "F|" + si.tname + "|" + fname }
func memKey(seq Sort) string                        { return "M|" + seqTag(seq) }
func cellKey(s Sort) string                         { return "C|" + string(s) }

func (c *FnCtx) memOf(st *State, seq Sort) *Term {
	return c.heapGet(st, memKey(seq), ArraySort(SInt, seq))
}

// region content of a slice's backing array
func (c *FnCtx) regionOf(st *State, seq Sort, ref *Term) *Term {
	return c.f.Select(c.memOf(st, seq), ref)
}

func (c *FnCtx) setRegion(st *State, seq Sort, ref, content *Term) {
	m := c.memOf(st, seq)
	c.heapSet(st, memKey(seq), c.f.Store(m, ref, content), ref)
}

// sliceContent returns the sequence of the len elements visible through slice s.
func (c *FnCtx) sliceContent(st *State, seq Sort, s *Term) *Term {
	f := c.f
	reg := c.regionOf(st, seq, f.SlRef(s))
	off := f.SlOff(s)
	return f.SSub(reg, off, f.Add(off, f.SlLen(s)))
}

// elemSeqSort returns the sequence sort holding the elements of a slice/array type.
func (c *FnCtx) elemSeqSort(t types.Type) Sort {
	var et types.Type
	switch u := t.Underlying().(type) {
	case *types.Slice:
		et = u.Elem()
	case *types.Array:
		et = u.Elem()
	case *types.Pointer:
		return c.elemSeqSort(u.Elem())
	case *types.Basic: // string
		return SB
	default:
		panic("elemSeqSort: " + t.String())
	}
	es, ok := c.sortOf(et)
	if !ok {
		es = SInt
	}
	return c.seqSortFor(et, es)
}

func (c *FnCtx) rootLoad(st *State, lv *LV) *Term {
	f := c.f
	arr := c.heapGet(st, lv.key, c.heapSort[lv.key])
	root := f.Select(arr, lv.ref)
	if lv.elem {
		if lv.sl != nil {
			// read through the slice's content value: at(sub(region, off, off+len), i) — the
			// quantifier-friendly form (patterns without arithmetic)
			off := f.SlOff(lv.sl)
			return f.SAt(f.SSub(root, off, f.Add(off, f.SlLen(lv.sl))), lv.rel)
		}
		root = f.SAt(root, lv.idx)
	}
	return root
}

func (c *FnCtx) load(st *State, lv *LV) *Term {
	if lv.elem && len(lv.path) == 0 && st.fwd != nil {
		if v, ok := st.fwd[fwdKey(lv.key, lv.ref, lv.idx)]; ok {
			return v
		}
	}
	v := c.rootLoad(st, lv)
	for _, p := range lv.path {
		if p.field != "" {
			v = c.structSel(p.dt, p.fidx, v)
		} else {
			v = c.f.SAt(v, p.index)
		}
	}
	c.assumeWF(st, v, lv.typ)
	return v
}

func (c *FnCtx) updPath(cur *Term, path []pathStep, v *Term) *Term {
	if len(path) == 0 {
		return v
	}
	p := path[0]
	if p.field != "" {
		vals := make([]*Term, len(p.dt.fields))
		for i := range p.dt.fields {
			vals[i] = c.structSel(p.dt, i, cur)
		}
		vals[p.fidx] = c.updPath(vals[p.fidx], path[1:], v)
		return c.mkStruct(p.dt, vals)
	}
	return c.f.SUpd(cur, p.index, c.updPath(c.f.SAt(cur, p.index), path[1:], v))
}

func (c *FnCtx) store(st *State, lv *LV, v *Term) {
	f := c.f
	sort := c.heapSort[lv.key]
	arr := c.heapGet(st, lv.key, sort)
	if lv.elem {
		seq := f.Select(arr, lv.ref)
		nv := c.updPath(f.SAt(seq, lv.idx), lv.path, v)
		c.heapSet(st, lv.key, f.Store(arr, lv.ref, f.SUpd(seq, lv.idx, nv)), lv.ref)
		if len(lv.path) == 0 {
			if st.fwd == nil {
				st.fwd = map[string]*Term{}
			}
			st.fwd[fwdKey(lv.key, lv.ref, lv.idx)] = v
		}
		return
	}
	nv := v
	if len(lv.path) > 0 {
		nv = c.updPath(f.Select(arr, lv.ref), lv.path, v)
	}
	c.heapSet(st, lv.key, f.Store(arr, lv.ref, nv), lv.ref)
}

// declareHeapKey makes sure the sort of a heap array is known.
func (c *FnCtx) declareHeapKey(key string, elem Sort) {
	if _, ok := c.heapSort[key]; !ok {
		c.heapSort[key] = ArraySort(SInt, elem)
	}
}

// fieldLV returns the location of a non-struct, non-array field of the struct at ref.
func (c *FnCtx) fieldLV(si *structInfo, sf *structField, ref *Term) *LV {
	key := fieldKey(si, sf.name)
	c.declareHeapKey(key, sf.sort)
	return &LV{key: key, ref: ref, typ: sf.typ}
}

// loadStruct reads a whole struct value from the flattened heap at ref.
func (c *FnCtx) loadStruct(st *State, si *structInfo, ref *Term) *Term {
	vals := make([]*Term, len(si.fields))
	for i := range si.fields {
		sf := &si.fields[i]
		switch sf.kind {
		case 1:
			vals[i] = c.loadStruct(st, c.structInfoOf(sf.typ), c.f.Add(ref, c.f.Int(int64(sf.off))))
		case 2:
			vals[i] = c.regionOf(st, sf.sort, c.f.Add(ref, c.f.Int(int64(sf.off))))
		default:
			vals[i] = c.load(st, c.fieldLV(si, sf, ref))
		}
	}
	return c.mkStruct(si, vals)
}

func (c *FnCtx) storeStruct(st *State, si *structInfo, ref *Term, v *Term) {
	for i := range si.fields {
		sf := &si.fields[i]
		fv := c.structSel(si, i, v)
		switch sf.kind {
		case 1:
			c.storeStruct(st, c.structInfoOf(sf.typ), c.f.Add(ref, c.f.Int(int64(sf.off))), fv)
		case 2:
			c.setRegion(st, sf.sort, c.f.Add(ref, c.f.Int(int64(sf.off))), fv)
		default:
			c.store(st, c.fieldLV(si, sf, ref), fv)
		}
	}
}

// alloc reserves n reference slots and returns the first.
func (c *FnCtx) alloc(st *State, n int) *Term {
	f := c.f
	r := f.Add(st.alpha, f.Int(1))
	st.alpha = f.Add(st.alpha, f.Int(int64(n)))
	if _, ok := f.allocSeq[r.id]; !ok {
		f.allocCtr++
		f.allocSeq[r.id] = f.allocCtr
	}
	return r
}

// isFreshRef: ref is syntactically an allocation made after function entry (alpha0 + k, or derived from a fresh constant > alpha).
func (c *FnCtx) isFresh(ref *Term) *Term {
	return c.f.Gt(ref, c.alpha0)
}

// isFreshRel: fresh relative to the entry of the contract being evaluated.
func (c *FnCtx) isFreshRel(ref *Term) *Term {
	if c.freshBase != nil {
		return c.f.Gt(ref, c.freshBase)
	}
	return c.f.Gt(ref, c.alpha0)
}

// ---------------------------------------------------------------------------
// Well-formedness assumptions (type invariants of values obtained from the environment)

func (c *FnCtx) assume(st *State, cond *Term) {
	st.R = c.f.And(st.R, cond)
	st.P = c.f.And(st.localP(c.f), cond)
}

func (s *State) localP(f *TermFactory) *Term {
	if s.P == nil {
		return f.True()
	}
	return s.P
}

// assumeWF adds the type invariants of v : typ to the path condition.
func (c *FnCtx) assumeWF(st *State, v *Term, typ types.Type) {
	if v == nil || typ == nil {
		return
	}
	f := c.f
	switch u := typ.Underlying().(type) {
	case *types.Basic:
		if u.Info()&types.IsInteger != 0 {
			c.typeRange(v, typ)
		}
		if u.Info()&types.IsString != 0 {
			c.assume(st, f.Le(f.SLen(v), f.IntB(maxLen)))
		}
	case *types.Slice:
		if v.op == "mkSl" {
			return
		}
		if c.inQuant > 0 && c.e.LeanQuant {
			// inside a quantifier body the invariants of a loaded slice header would become conjuncts
			// of the body (they cannot be asserted outside the binder); they are true of every Go value,
			// nothing is lost by not restating them, and the body stays a plain (nested) quantifier
			return
		}
		seq := c.elemSeqSort(typ)
		ref, off, ln, cp := f.SlRef(v), f.SlOff(v), f.SlLen(v), f.SlCap(v)
		reg := c.regionOf(st, seq, ref)
		c.assume(st, f.And(
			f.Le(f.Int(0), ref), f.Le(ref, st.alpha),
			f.Le(f.Int(0), off), f.Le(f.Int(0), ln), f.Le(ln, cp),
			f.Le(f.Add(off, cp), f.SLen(reg)), f.Le(f.SLen(reg), f.IntB(maxLen)),
			f.Implies(f.Eq(ref, f.Int(0)), f.And(f.Eq(cp, f.Int(0)), f.Eq(off, f.Int(0))))))
	case *types.Pointer:
		if v.sort != SInt {
			return
		}
		size := 1
		if si := c.structInfoOf(u.Elem()); si != nil {
			size = si.size
		}
		c.assume(st, f.And(f.Le(f.Int(0), v), f.Le(f.Add(v, f.Int(int64(size-1))), st.alpha)))
	case *types.Map, *types.Chan:
		c.assume(st, f.And(f.Le(f.Int(0), v), f.Le(v, st.alpha)))
	case *types.Interface:
		// payloads that are references are allocated
		c.assume(st, f.And(f.Le(f.Int(0), f.IfTyp(v)), f.Le(f.IfVal(v), st.alpha),
			f.Implies(f.Eq(f.IfTyp(v), f.Int(0)), f.Eq(f.IfVal(v), f.Int(0)))))
		// Go typing: the dynamic type implements the static interface type. Stated for interfaces
		// declared in the module against the module's pointer-to-struct types (what object() frames
		// range over).
		if nt, ok := typ.(*types.Named); ok && c.inQuant == 0 && nt.Obj().Pkg() != nil && strings.HasPrefix(nt.Obj().Pkg().Path(), ModulePath) && u.NumMethods() > 0 {
			var ne []*Term
			for _, sn := range c.e.moduleStructs() {
				pt := types.NewPointer(sn)
				if !types.Implements(pt, u) {
					ne = append(ne, f.Not(f.Eq(f.IfTyp(v), f.Int(int64(c.e.TypeID(pt))))))
				}
			}
			c.assume(st, f.And(ne...))
		}
	case *types.Struct:
		si := c.structInfoOf(typ)
		if v.op == "|mk"+si.name+"|" {
			for i := range si.fields {
				c.assumeWF(st, v.args[i], si.fields[i].typ)
			}
			return
		}
		for i := range si.fields {
			switch si.fields[i].typ.Underlying().(type) {
			case *types.Basic, *types.Slice, *types.Pointer, *types.Struct, *types.Interface, *types.Map:
				c.assumeWF(st, c.structSel(si, i, v), si.fields[i].typ)
			}
		}
	case *types.Array:
		c.assume(st, f.Eq(f.SLen(v), f.Int(u.Len())))
	}
}

// maxLen: assumed upper bound on the length of every slice and string that exists in a reachable state
// (1 TiB); maxAlloc: the runtime limit of a single allocation on linux/amd64 (makeslice panics beyond).
var maxLen = pow2(40)
var maxAlloc = pow2(48)

// freshValue creates an unconstrained value of the type (with type invariants assumed).
func (c *FnCtx) freshValue(st *State, name string, typ types.Type) Value {
	if tup, ok := typ.(*types.Tuple); ok {
		var vs Tuple
		for i := 0; i < tup.Len(); i++ {
			vs = append(vs, c.freshValue(st, fmt.Sprintf("%s.%d", name, i), tup.At(i).Type()))
		}
		return vs
	}
	s, ok := c.sortOf(typ)
	if !ok {
		return nil
	}
	t := c.f.Fresh(name, s)
	c.assumeWF(st, t, typ)
	return t
}

func sortedHeapKeys(m map[string]*Term) []string {
	ks := make([]string, 0, len(m))
	for k := range m {
		ks = append(ks, k)
	}
	sort.Strings(ks)
	return ks
}
