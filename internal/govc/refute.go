package govc

// Counterexample search: the same obligation is posed with the byte-string /
// sequence sorts mapped to the solver's native sequence theory, which (unlike
// the axiomatic encoding used for proving) yields models. Values of the
// function's parameters are read from the model with get-value.

import (
	"fmt"
	"math/big"
	"os"
	"os/exec"
	"path/filepath"
	"strings"
	"time"
)

const nativeSeqTemplate = `
(define-sort Seq$X () (Seq $E))
(define-fun len$X ((s Seq$X)) Int (seq.len s))
(define-fun at$X ((s Seq$X) (i Int)) $E (seq.nth s i))
(define-fun empty$X () Seq$X (as seq.empty Seq$X))
(define-fun cat$X ((a Seq$X) (b Seq$X)) Seq$X (seq.++ a b))
(define-fun sub$X ((s Seq$X) (lo Int) (hi Int)) Seq$X (seq.extract s lo (- hi lo)))
(define-fun one$X ((e $E)) Seq$X (seq.unit e))
(define-fun-rec rep$X ((e $E) (n Int)) Seq$X (ite (<= n 0) (as seq.empty Seq$X) (seq.++ (seq.unit e) (rep$X e (- n 1)))))
(define-fun upd$X ((s Seq$X) (i Int) (e $E)) Seq$X
  (ite (and (<= 0 i) (< i (seq.len s))) (seq.++ (seq.extract s 0 i) (seq.unit e) (seq.extract s (+ i 1) (- (seq.len s) (+ i 1)))) s))
(define-fun splice$X ((s Seq$X) (p Int) (t Seq$X)) Seq$X
  (ite (and (<= 0 p) (<= (+ p (seq.len t)) (seq.len s)))
       (seq.++ (seq.extract s 0 p) t (seq.extract s (+ p (seq.len t)) (- (seq.len s) (+ p (seq.len t))))) s))
(define-fun eq$X ((a Seq$X) (b Seq$X)) Bool (= a b))
`

func (f *TermFactory) declTextNative() string {
	var sb strings.Builder
	sb.WriteString(preludeFixed)
	for _, d := range f.declOrd {
		if strings.HasPrefix(d, "seq:") {
			si := f.seqs[d[4:]]
			tmpl := nativeSeqTemplate
			if si.Byte {
				// models may contain arbitrary integers as elements: bytes are read modulo 256
				tmpl = strings.Replace(tmpl, "(seq.nth s i))", "(mod (seq.nth s i) 256))", 1)
			}
			s := strings.ReplaceAll(tmpl, "$E", string(si.Elem))
			s = strings.ReplaceAll(s, "$X", "$"+si.Tag)
			sb.WriteString(s)
		} else {
			sb.WriteString(f.dtypes[d[3:]])
			sb.WriteString("\n")
		}
	}
	return sb.String()
}

// weaken returns a formula implied by t (pos) / implying t (!pos) in which quantifiers that the model
// finder cannot handle are dropped: universal facts in assumption position become true, existential
// ones in goal position become false. A model of the weakened negated obligation may be spurious; it is
// only trusted after it has been replayed on the real code.
func (f *TermFactory) weaken(t *Term, pos bool, memo map[[2]int]*Term) *Term {
	if t.sort != SBool {
		return t
	}
	k := [2]int{t.id, 0}
	if pos {
		k[1] = 1
	}
	if r, ok := memo[k]; ok {
		return r
	}
	var r *Term
	switch t.op {
	case "forall":
		if pos {
			r = f.True()
		} else {
			r = t
		}
	case "exists":
		if !pos {
			r = f.False()
		} else {
			r = t
		}
	case "not":
		r = f.Not(f.weaken(t.args[0], !pos, memo))
	case "and":
		as := make([]*Term, len(t.args))
		for i, a := range t.args {
			as[i] = f.weaken(a, pos, memo)
		}
		r = f.And(as...)
	case "or":
		as := make([]*Term, len(t.args))
		for i, a := range t.args {
			as[i] = f.weaken(a, pos, memo)
		}
		r = f.Or(as...)
	case "=>":
		r = f.Implies(f.weaken(t.args[0], !pos, memo), f.weaken(t.args[1], pos, memo))
	default:
		r = t
	}
	memo[k] = r
	return r
}

// NativeText renders goal i negated in the native encoding, with extra assertions and a get-value request.
func (s *Script) NativeText(i int, extra []*Term, values []*Term) string {
	return s.NativeTextOpt(i, extra, values, false)
}

// NativeTextOpt with dropQ leaves out every quantified axiom (a weaker set of assumptions: candidate models may
// violate an axiom; they only count once replayed on the real code).
func (s *Script) NativeTextOpt(i int, extra []*Term, values []*Term, dropQ bool) string {
	f := s.f
	var sb strings.Builder
	sb.WriteString("(set-option :produce-models true)\n")
	sb.WriteString(f.declTextNative())
	for _, n := range f.funOrd {
		sb.WriteString(f.funs[n])
		sb.WriteString("\n")
	}
	for _, c := range f.consts {
		fmt.Fprintf(&sb, "(declare-const |%s| %s)\n", c.name, c.sort)
	}
	for _, a := range f.axioms {
		if dropQ && strings.Contains(a, "forall") {
			continue
		}
		sb.WriteString(a)
		sb.WriteString("\n")
	}
	roots := append([]*Term{}, f.ranges...)
	nExtra := 0
	for _, ax := range s.Extra {
		if dropQ && (ax.op == "forall" || ax.bound) {
			continue
		}
		roots = append(roots, ax)
		nExtra++
	}
	roots = append(roots, extra...)
	neg := f.weaken(f.Not(s.Goals[i]), true, map[[2]int]*Term{})
	roots = append(roots, neg)
	roots = append(roots, values...)
	p := &Printer{f: f, defined: map[int]string{}, out: &strings.Builder{}, refs: map[int]int{}}
	txt := p.Define(roots...)
	sb.WriteString(p.out.String())
	na := len(f.ranges) + nExtra + len(extra)
	for k := 0; k < na; k++ {
		fmt.Fprintf(&sb, "(assert %s)\n", txt[k])
	}
	fmt.Fprintf(&sb, "(assert %s)\n(check-sat)\n", txt[na])
	if len(values) > 0 {
		fmt.Fprintf(&sb, "(get-value (%s))\n", strings.Join(txt[na+1:], "\n "))
	}
	return sb.String()
}

// ---- s-expressions ----

type sexp struct {
	atom string
	list []*sexp
	isL  bool
}

func parseSexps(s string) []*sexp {
	var out []*sexp
	pos := 0
	var parse func() *sexp
	skip := func() {
		for pos < len(s) {
			c := s[pos]
			if c == ' ' || c == '\n' || c == '\t' || c == '\r' {
				pos++
			} else if c == ';' {
				for pos < len(s) && s[pos] != '\n' {
					pos++
				}
			} else {
				break
			}
		}
	}
	parse = func() *sexp {
		skip()
		if pos >= len(s) {
			return nil
		}
		if s[pos] == '(' {
			pos++
			e := &sexp{isL: true}
			for {
				skip()
				if pos >= len(s) {
					return e
				}
				if s[pos] == ')' {
					pos++
					return e
				}
				c := parse()
				if c == nil {
					return e
				}
				e.list = append(e.list, c)
			}
		}
		if s[pos] == ')' {
			pos++
			return nil
		}
		start := pos
		if s[pos] == '|' {
			pos++
			for pos < len(s) && s[pos] != '|' {
				pos++
			}
			pos++
			return &sexp{atom: s[start:pos]}
		}
		if s[pos] == '"' {
			pos++
			for pos < len(s) && s[pos] != '"' {
				pos++
			}
			pos++
			return &sexp{atom: s[start:pos]}
		}
		for pos < len(s) && !strings.ContainsRune(" \n\t\r()", rune(s[pos])) {
			pos++
		}
		return &sexp{atom: s[start:pos]}
	}
	for {
		e := parse()
		if e == nil {
			break
		}
		out = append(out, e)
	}
	return out
}

func (e *sexp) String() string {
	if !e.isL {
		return e.atom
	}
	var ps []string
	for _, c := range e.list {
		ps = append(ps, c.String())
	}
	return "(" + strings.Join(ps, " ") + ")"
}

func (e *sexp) asInt() (*big.Int, bool) {
	if !e.isL {
		v, ok := new(big.Int).SetString(e.atom, 10)
		return v, ok
	}
	if len(e.list) == 2 && e.list[0].atom == "-" {
		v, ok := e.list[1].asInt()
		if ok {
			return new(big.Int).Neg(v), true
		}
	}
	return nil, false
}

// asSeq flattens a native sequence literal into its elements.
func (e *sexp) asSeq() ([]*sexp, bool) {
	if !e.isL {
		return nil, false
	}
	if len(e.list) == 0 {
		return nil, false
	}
	switch e.list[0].atom {
	case "as":
		if len(e.list) >= 2 && e.list[1].atom == "seq.empty" {
			return nil, true
		}
	case "seq.unit":
		return []*sexp{e.list[1]}, true
	case "seq.++":
		var out []*sexp
		for _, c := range e.list[1:] {
			xs, ok := c.asSeq()
			if !ok {
				return nil, false
			}
			out = append(out, xs...)
		}
		return out, true
	}
	return nil, false
}

// modelQuery runs a solver on the native script and returns the value s-expressions in request order.
func modelQuery(script, dir, name string, timeout time.Duration) (string, []*sexp, string) {
	os.MkdirAll(dir, 0o755)
	file := filepath.Join(dir, sanitize(name)+".native.smt2")
	os.WriteFile(file, []byte(script), 0o644)
	for _, bin := range []string{"z3-new", "/usr/bin/z3"} {
		cmd := exec.Command(bin, fmt.Sprintf("-T:%d", int(timeout.Seconds())), "-smt2", file)
		out, _ := cmd.CombinedOutput()
		txt := strings.TrimSpace(string(out))
		first := txt
		if i := strings.IndexByte(txt, '\n'); i >= 0 {
			first = txt[:i]
		}
		if first == "sat" {
			rest := txt[len(first):]
			es := parseSexps(rest)
			if len(es) >= 1 && es[0].isL {
				var vals []*sexp
				for _, pair := range es[0].list {
					if pair.isL && len(pair.list) == 2 {
						vals = append(vals, pair.list[1])
					}
				}
				return "sat", vals, bin
			}
			return "sat", nil, bin
		}
		if first == "unsat" {
			return "unsat", nil, bin
		}
	}
	return "unknown", nil, ""
}
