package govc

import (
	"fmt"
	"go/types"
	"math/big"
	"os"
	"strings"

	"golang.org/x/tools/go/ssa"
)

// ---------------------------------------------------------------------------
// frame checking

func (c *FnCtx) frameCheck(st *State, key string, ref, lo, hi *Term, pos string) {
	if !c.hasFrame || c.ghost > 0 || c.dry > 0 {
		return
	}
	f := c.f
	var alts []*Term
	alts = append(alts, c.isFresh(ref))
	if lo != nil && hi != nil {
		alts = append(alts, f.Le(hi, lo)) // an empty range writes nothing
	}
	for _, a := range c.assigns {
		g := f.True()
		if a.cond != nil {
			g = a.cond
		}
		if a.whole {
			if strings.HasPrefix(key, "F|") || strings.HasPrefix(key, "M|") || strings.HasPrefix(key, "G|") {
				alts = append(alts, f.And(g, f.Le(a.ref, ref), f.Lt(ref, a.hi)))
			}
			continue
		}
		if a.key != key {
			continue
		}
		if a.region {
			if lo == nil {
				continue
			}
			h := hi
			if h == nil {
				h = f.Add(lo, f.Int(1))
			}
			alts = append(alts, f.And(g, f.Eq(ref, a.ref), f.Le(a.lo, lo), f.Le(h, a.hi)))
			continue
		}
		alts = append(alts, f.And(g, f.Eq(ref, a.ref)))
	}
	c.oblige(st, "frame", f.Or(alts...), pos, "write target is fresh or listed in assigns ("+key+")")
}

func (c *FnCtx) frameCheckWhole(st *State, ref *Term, si *structInfo, pos string) {
	if !c.hasFrame || c.ghost > 0 || c.dry > 0 {
		return
	}
	f := c.f
	alts := []*Term{c.isFresh(ref)}
	for _, a := range c.assigns {
		if a.whole {
			alts = append(alts, f.And(f.Le(a.ref, ref), f.Le(f.Add(ref, f.Int(int64(si.size))), a.hi)))
		}
	}
	c.oblige(st, "frame", f.Or(alts...), pos, "whole-struct write target is fresh or listed in assigns")
}

// ---------------------------------------------------------------------------
// call dispatch

func (fr *frame) call(x *ssa.Call, st *State, pos string) Value {
	c := fr.c
	cc := x.Common()
	args := make([]Value, 0, len(cc.Args)+1)
	if cc.IsInvoke() {
		recv := fr.operand(cc.Value, st)
		args = append(args, recv)
		for _, a := range cc.Args {
			args = append(args, fr.operand(a, st))
		}
		key := cc.Method.FullName()
		if h, ok := invokeIntrinsics[key]; ok {
			if v, handled := h(fr, x, args, st, pos); handled {
				if c.intrinsics == nil {
					c.intrinsics = map[string]bool{}
				}
				c.intrinsics[key] = true
				return v
			}
		}
		// devirtualise when the dynamic type is syntactically known
		if rt, ok := recv.(*Term); ok && rt.op == "mkIf" && rt.args[0].ival != nil {
			id := int(rt.args[0].ival.Int64())
			if id >= 1 && id <= len(c.e.typeByID) {
				dt := c.e.typeByID[id-1]
				if m := c.e.Prog.LookupMethod(dt, cc.Method.Pkg(), cc.Method.Name()); m != nil {
					var rv Value
					switch dt.Underlying().(type) {
					case *types.Pointer, *types.Map, *types.Chan:
						rv = rt.args[1]
					default:
						s, _ := c.sortOf(dt)
						rv = c.unbox(rt.args[1], s)
					}
					args[0] = rv
					return fr.staticCall(x, m, args, nil, st, pos)
				}
			}
		}
		// devirtualise by cases when the receiver is a join of values of syntactically known dynamic types
		if rt, ok := recv.(*Term); ok && rt.op == "ite" {
			type leaf struct {
				guard *Term
				v     *Term
			}
			var leaves []leaf
			okAll := true
			var walk func(t, g *Term)
			walk = func(t, g *Term) {
				if !okAll {
					return
				}
				switch {
				case t.op == "ite" && len(t.args) == 3:
					walk(t.args[1], c.f.And(g, t.args[0]))
					walk(t.args[2], c.f.And(g, c.f.Not(t.args[0])))
				case t.op == "mkIf" && t.args[0].ival != nil && t.args[0].ival.Sign() > 0:
					leaves = append(leaves, leaf{g, t})
				default:
					okAll = false
				}
			}
			walk(rt, c.f.True())
			if okAll && len(leaves) >= 2 && len(leaves) <= 4 {
				var ss []*State
				var vs []Value
				for _, lf := range leaves {
					id := int(lf.v.args[0].ival.Int64())
					if id < 1 || id > len(c.e.typeByID) {
						okAll = false
						break
					}
					dt := c.e.typeByID[id-1]
					m := c.e.Prog.LookupMethod(dt, cc.Method.Pkg(), cc.Method.Name())
					if m == nil {
						okAll = false
						break
					}
					sk := st.clone()
					c.assume(sk, lf.guard)
					var rv Value
					switch dt.Underlying().(type) {
					case *types.Pointer, *types.Map, *types.Chan:
						rv = lf.v.args[1]
					default:
						srt, _ := c.sortOf(dt)
						rv = c.unbox(lf.v.args[1], srt)
					}
					a2 := append([]Value{rv}, args[1:]...)
					vs = append(vs, fr.staticCall(x, m, a2, nil, sk, pos))
					ss = append(ss, sk)
				}
				if okAll {
					merged := c.mergeStates(ss, fr.baseR)
					res := c.mergeValues(ss, vs, "devirtualised call "+key)
					*st = *merged
					return res
				}
			}
		}
		if ct := c.e.Contracts.ByKey[key]; ct != nil {
			if rt, ok := recv.(*Term); ok {
				c.oblige(st, "nil", c.f.Not(c.f.Eq(c.f.IfTyp(rt), c.f.Int(0))), pos, "method call on nil interface")
			}
			return c.byContract(ct, cc.Signature(), args, st, pos)
		}
		c.unsupported("interface method call %s without contract at %s", key, pos)
		c.unknownWrites(st, cc.Signature(), key, pos)
		return c.havocResults(st, cc.Signature().Results(), cc.Method.Name())
	}
	for _, a := range cc.Args {
		args = append(args, fr.operand(a, st))
	}
	switch v := cc.Value.(type) {
	case *ssa.Builtin:
		return fr.builtin(x, v.Name(), args, st, pos)
	case *ssa.Function:
		return fr.staticCall(x, v, args, nil, st, pos)
	case *ssa.MakeClosure:
		cl := fr.operand(v, st).(*Closure)
		return fr.staticCall(x, cl.Fn, args, cl.Bindings, st, pos)
	}
	fv := fr.operand(cc.Value, st)
	switch v := fv.(type) {
	case *Closure:
		return fr.staticCall(x, v.Fn, args, v.Bindings, st, pos)
	case *FuncVal:
		return fr.staticCall(x, v.Fn, args, nil, st, pos)
	}
	c.unsupported("dynamic call at %s", pos)
	return c.havocResults(st, cc.Signature().Results(), "dyn")
}

func (fr *frame) staticCall(x *ssa.Call, fn *ssa.Function, args []Value, bindings []Value, st *State, pos string) Value {
	c := fr.c
	key := FnKey(fn)
	if strings.HasPrefix(key, VspecPath+".") {
		if v, ok := fr.vspecIntrinsic(x, key[len(VspecPath)+1:], fn, args, st, pos); ok {
			return v
		}
	}
	if h, ok := extIntrinsics[key]; ok {
		if c.intrinsics == nil {
			c.intrinsics = map[string]bool{}
		}
		c.intrinsics[key] = true
		return h(fr, x, args, st, pos)
	}
	ct, recvNowPtr := c.e.ContractFor(fn)
	if ct != nil && recvNowPtr {
		if ptr, ok := args[0].(*Term); ok {
			pt := fn.Params[0].Type().Underlying().(*types.Pointer).Elem()
			args = append([]Value{c.loadStruct(st, c.structInfoOf(pt), ptr)}, args[1:]...)
		}
	}
	if ct != nil {
		switch ct.Kind {
		case "spec":
			return c.callSpec(ct, fn, args, st, pos)
		case "lemma":
			return c.byContract(ct, fn.Signature, args, st, pos)
		}
		if !ct.Inline && !(len(c.stack) == 0) {
			return c.byContract(ct, fn.Signature, args, st, pos)
		}
	}
	if len(fn.Blocks) > 0 && (IsRepoFn(fn) || fn.Parent() != nil) {
		return c.inlineCall(fn, args, bindings, st)
	}
	// a method promoted from an embedded field: use the contract written against the outer type
	if x != nil && len(x.Call.Args) > 0 && fn.Signature.Recv() != nil {
		if ct, outer, ok := fr.promotedContract(x.Call.Args[0], fn, st); ok {
			nargs := append([]Value{outer}, args[1:]...)
			return c.byContract(ct, fn.Signature, nargs, st, pos)
		}
	}
	if len(fn.Blocks) > 0 {
		for _, pre := range c.e.Contracts.ExtInline {
			if strings.HasPrefix(key, pre) {
				c.inlinedExt[key] = true
				return c.inlineCall(fn, args, bindings, st)
			}
		}
	}
	c.unsupported("call of %s without contract at %s", key, pos)
	c.unknownWrites(st, fn.Signature, key, pos)
	return c.havocResults(st, fn.Signature.Results(), fn.Name())
}

// unknownWrites: a callee without contract that is handed references may write through them. In a function
// with a frame clause that is an obligation nobody can discharge (the frame is not shown).
func (c *FnCtx) unknownWrites(st *State, sig *types.Signature, key, pos string) {
	if !c.hasFrame || c.ghost > 0 || c.dry > 0 {
		return
	}
	refs := false
	check := func(t types.Type) {
		switch t.Underlying().(type) {
		case *types.Pointer, *types.Slice, *types.Map, *types.Interface, *types.Chan, *types.Signature:
			refs = true
		}
	}
	if r := sig.Recv(); r != nil {
		check(r.Type())
	}
	for i := 0; i < sig.Params().Len(); i++ {
		check(sig.Params().At(i).Type())
	}
	if refs {
		c.oblige(st, "frame", c.f.False(), pos, "call of "+key+" has no contract: what it writes through its reference arguments is unknown")
	}
}

// promotedContract walks up embedded-field selections of the receiver operand and looks for a contract
// keyed by the outer type with the same method name.
func (fr *frame) promotedContract(recv ssa.Value, fn *ssa.Function, st *State) (*Contract, Value, bool) {
	c := fr.c
	cur := recv
	for depth := 0; depth < 4; depth++ {
		var base ssa.Value
		var viaPtr bool
		switch v := cur.(type) {
		case *ssa.Field:
			base = v.X
		case *ssa.FieldAddr:
			base = v.X
			viaPtr = true
		case *ssa.UnOp:
			if fa, ok := v.X.(*ssa.FieldAddr); ok && v.Op.String() == "*" {
				base = fa.X
				viaPtr = true
			}
		}
		if base == nil {
			return nil, nil, false
		}
		bt := base.Type()
		if p, ok := bt.Underlying().(*types.Pointer); ok && viaPtr {
			bt = p.Elem()
		}
		named, ok := bt.(*types.Named)
		if !ok {
			return nil, nil, false
		}
		tn := named.Obj().Pkg().Path() + "." + named.Obj().Name()
		for _, key := range []string{"(" + tn + ")." + fn.Name(), "(*" + tn + ")." + fn.Name()} {
			if ct := c.e.Contracts.ByKey[key]; ct != nil {
				var outer Value
				bv := fr.operand(base, st)
				if viaPtr && !strings.HasPrefix(key, "(*") {
					// contract takes the value: load the struct
					if ref, ok := bv.(*Term); ok {
						outer = c.loadStruct(st, c.structInfoOf(bt), ref)
					}
				} else {
					outer = bv
				}
				if outer != nil {
					return ct, outer, true
				}
			}
		}
		cur = base
	}
	return nil, nil, false
}

func (c *FnCtx) inlineCall(fn *ssa.Function, args []Value, bindings []Value, st *State) Value {
	res, out := c.exec(fn, args, bindings, st)
	if out == nil {
		st.R = c.f.False()
		st.P = c.f.False()
		return c.havocResults(st, fn.Signature.Results(), fn.Name())
	}
	st.R, st.P, st.heap, st.alpha, st.fwd = out.R, out.P, out.heap, out.alpha, out.fwd
	return res
}

// callSpec: spec functions are ghost: opaque ones are uninterpreted, ghost ones read a ghost field, others are inlined.
func (c *FnCtx) callSpec(ct *Contract, fn *ssa.Function, args []Value, st *State, pos string) Value {
	f := c.f
	if ct.Ghost {
		ref, ok := args[0].(*Term)
		if !ok {
			c.unsupported("ghost field %s on static value at %s", ct.Key, pos)
			return c.havocResults(st, fn.Signature.Results(), fn.Name())
		}
		if ref.sort == SIf {
			ref = f.IfVal(ref)
		}
		rs, _ := c.sortOf(fn.Signature.Results().At(0).Type())
		key := "G|" + ct.Key
		c.declareHeapKey(key, rs)
		lv := &LV{key: key, ref: ref, typ: fn.Signature.Results().At(0).Type()}
		c.lastGhost = lv
		return c.load(st, lv)
	}
	if ct.Opaque || ct.Rec {
		name := "spec$" + sanitize(ct.Key[strings.LastIndex(ct.Key, "/")+1:])
		var sorts []Sort
		var ts []*Term
		for i, a := range args {
			t, ok := a.(*Term)
			if !ok {
				c.unsupported("opaque spec function %s applied to static value at %s", ct.Key, pos)
				return c.havocResults(st, fn.Signature.Results(), fn.Name())
			}
			// objects passed as `any` are identified by their reference
			if pt := fn.Signature.Params().At(i).Type(); t.sort == SIf {
				if it, ok := pt.Underlying().(*types.Interface); ok && it.NumMethods() == 0 {
					t = f.IfVal(t)
				}
			}
			// byte slices are passed by content
			if t.sort == SSl {
				pt := fn.Signature.Params().At(i).Type()
				t = c.sliceContent(st, c.elemSeqSort(pt), t)
			}
			sorts = append(sorts, t.sort)
			ts = append(ts, t)
		}
		res := fn.Signature.Results()
		mk := func(i int) *Term {
			rt := res.At(i).Type()
			rs, ok := c.sortOf(rt)
			if !ok || rs == SSl {
				c.unsupported("opaque spec function %s must return scalars or strings", ct.Key)
				rs = SInt
			}
			n := name
			if res.Len() > 1 {
				n = fmt.Sprintf("%s$%d", name, i)
			}
			f.DeclareFun(n, sorts, rs)
			t := f.App(n, rs, ts...)
			if rs != SB {
				// (specification-level strings are mathematical sequences: no machine length bound)
				c.assumeWF(st, t, rt)
			}
			return t
		}
		if ct.Rec || c.revealed[ct.Key] {
			c.ensureRecAxiom(ct, fn, name, sorts)
		}
		if res.Len() == 1 {
			app := mk(0)
			if ct.Rec && c.unfolding[name] == 0 && !app.bound && strings.HasPrefix(string(app.sort), "Seq$") {
				// the definition, unfolded once for these arguments, is a known equality
				c.unfolding[name]++
				c.ghost++
				body := c.inlineCall(fn, args, nil, st)
				c.ghost--
				c.unfolding[name]--
				if bt, ok := body.(*Term); ok && bt.sort == app.sort {
					if strings.HasPrefix(string(app.sort), "Seq$") {
						c.f.unfold[app.id] = bt
						c.assume(st, c.f.rawEq(app, bt))
					} else {
						c.assume(st, c.f.Eq(app, bt))
					}
				}
			}
			return app
		}
		var tup Tuple
		for i := 0; i < res.Len(); i++ {
			tup = append(tup, mk(i))
		}
		return tup
	}
	c.ghost++
	defer func() { c.ghost-- }()
	return c.inlineCall(fn, args, nil, st)
}

// ensureRecAxiom emits the unfolding axiom of a recursive spec function (parameters must be scalars/strings).
func (c *FnCtx) ensureRecAxiom(ct *Contract, fn *ssa.Function, name string, sorts []Sort) {
	if c.recDone == nil {
		c.recDone = map[string]bool{}
	}
	if c.recDone[name] {
		return
	}
	c.recDone[name] = true
	f := c.f
	var vars []*Term
	var args []Value
	for i, s := range sorts {
		v := f.BoundVar(fn.Params[i].Name(), s)
		c.typeRange(v, fn.Params[i].Type())
		vars = append(vars, v)
		args = append(args, v)
	}
	st := &State{R: f.True(), heap: map[string]*Term{}, alpha: c.alpha0}
	c.ghost++
	savedStack := c.stack
	c.stack = nil
	c.recBody = fn
	res, out := c.exec(fn, args, nil, st)
	c.recBody = nil
	c.stack = savedStack
	c.ghost--
	rt, ok := res.(*Term)
	if !ok || out == nil {
		c.unsupported("recursive spec function %s: body not first-order", ct.Key)
		return
	}
	app := f.App(name, rt.sort, vars...)
	// guard with type invariants of the parameters
	var guards []*Term
	for i, v := range vars {
		if v.sort == SInt {
			if bits, signed, ok := intInfo(fn.Params[i].Type()); ok {
				lo, hi := intRange(bits, signed)
				guards = append(guards, f.mk("<=", SBool, "", f.IntB(lo), v), f.mk("<=", SBool, "", v, f.IntB(hi)))
			}
		}
	}
	body := f.Implies(f.And(guards...), f.Eq(app, rt))
	ax := f.Forall(vars, body, []*Term{app})
	c.termAxioms = append(c.termAxioms, ax)
}

// ---------------------------------------------------------------------------
// call by contract

func (c *FnCtx) collectAssigns(ct *Contract, args []Value, st *State) []assignLoc {
	if ct.Assigns == nil {
		return nil
	}
	fn := c.lookupSynthetic(ct.PkgPath, ct.Assigns.FnName)
	if fn == nil {
		return nil
	}
	saved := c.asgOut
	savedCond := c.asgCond
	c.asgCond = nil
	defer func() { c.asgCond = savedCond }()
	var out []assignLoc
	c.asgOut = &out
	tmp := st.clone()
	c.ghost++
	c.exec(fn, args[:len(ct.Params)], nil, tmp)
	c.ghost--
	c.asgOut = saved
	if c.asgCond != nil {
		for i := range out {
			if out[i].cond != nil {
				out[i].cond = c.f.And(c.asgCond, out[i].cond)
			} else {
				out[i].cond = c.asgCond
			}
		}
	}
	return out
}

func (c *FnCtx) byContract(ct *Contract, sig *types.Signature, args []Value, st *State, pos string) Value {
	f := c.f
	c.used[ct.Key] = true
	short := ct.Key[strings.LastIndex(ct.Key, "/")+1:]
	if len(args) != len(ct.Params) {
		c.unsupported("contract %s has %d parameters, call has %d arguments (%s)", ct.Key, len(ct.Params), len(args), pos)
		return c.havocResults(st, sig.Results(), short)
	}
	// preconditions
	preAll := f.True()
	for k, rq := range ct.Requires {
		cond, _ := c.evalClause(rq.FnName, ct.PkgPath, args, st, nil)
		if c.ghost > 0 {
			preAll = f.And(preAll, cond)
		} else {
			c.oblige(st, "pre", cond, pos, fmt.Sprintf("precondition %d of %s: %s", k, short, rq.Text))
		}
	}
	if ct == c.contract && c.ghost == 0 {
		// recursive call (lemmas by induction): the variant decreases and is bounded below
		if ct.Dec == nil || c.topDec == nil {
			c.unsupported("recursive call of %s without a `decreases` clause at %s", short, pos)
		} else if dfn := c.lookupSynthetic(ct.PkgPath, ct.Dec.FnName); dfn != nil {
			if d, ok := c.evalGhost(dfn, args, st.clone(), nil).(*Term); ok {
				c.oblige(st, "variant", f.And(f.Le(f.Int(0), d), f.Lt(d, c.topDec)), pos, "recursive call: variant decreases and stays non-negative: "+ct.Dec.Text)
			}
		}
	}
	pre := st.clone()
	// frame
	locs := c.collectAssigns(ct, args, st)
	if !ct.Pure {
		// the callee may allocate: havocked locations and results may refer to new objects
		na := f.Fresh("alpha", SInt)
		c.assume(st, f.Le(st.alpha, na))
		st.alpha = na
	}
	for _, l := range locs {
		c.havocLoc(st, l, pos)
	}
	// results
	var results []Value
	res := sig.Results()
	for i := 0; i < res.Len(); i++ {
		name := short + ".r"
		if i < len(ct.Results) {
			name = short + "." + ct.Results[i].Name
		}
		v := c.freshValue(st, name, res.At(i).Type())
		if v == nil {
			c.unsupported("result %d of %s has a static-only type", i, ct.Key)
		}
		results = append(results, v)
	}
	if len(ct.Results) != res.Len() {
		c.unsupported("contract %s names %d results, function has %d", ct.Key, len(ct.Results), res.Len())
	} else {
		all := append(append([]Value{}, args...), results...)
		savedBase := c.freshBase
		c.freshBase = pre.alpha
		defer func() { c.freshBase = savedBase }()
		for _, en := range ct.Ensures {
			cond, _ := c.evalClause(en.FnName, ct.PkgPath, all, st, pre)
			if c.ghost > 0 {
				cond = f.Implies(preAll, cond)
			}
			c.assume(st, cond)
		}
	}
	switch len(results) {
	case 0:
		return nil
	case 1:
		return results[0]
	}
	return Tuple(results)
}

func (c *FnCtx) havocLoc(st *State, l assignLoc, pos string) {
	f := c.f
	if l.cond != nil {
		// conditional write: check the frame and havoc only under the condition
		guard := st.clone()
		c.assume(guard, l.cond)
		if guard.R.op != "false" {
			n := len(c.obls)
			l2 := l
			l2.cond = nil
			tmp := guard.clone()
			c.havocLoc(tmp, l2, pos)
			_ = n
			// merge: locations keep their value when the condition is false
			for k, v := range tmp.heap {
				old := c.heapGet(st, k, c.heapSort[k])
				if old != v {
					c.heapSet(st, k, f.Ite(l.cond, v, old), nil)
				}
			}
			// assumptions made about the fresh values hold under the condition
			if tmp.R != guard.R {
				c.assume(st, f.Implies(l.cond, tmp.localP(f)))
			}
		}
		return
	}
	switch {
	case l.whole:
		if l.si != nil {
			c.frameCheckWhole(st, l.ref, l.si, pos)
			v := f.Fresh("havoc."+l.si.name, Sort(l.si.name))
			c.assumeWF(st, v, l.styp)
			c.storeStruct(st, l.si, l.ref, v)
		}
	case l.region:
		if l.lo == l.hi {
			return // empty range: nothing is written
		}
		c.frameCheck(st, l.key, l.ref, l.lo, l.hi, pos)
		seq := elemSort(c.heapSort[l.key])
		reg := f.Select(c.heapGet(st, l.key, c.heapSort[l.key]), l.ref)
		nv := f.Fresh("havoc.region", seq)
		n := f.Sub(l.hi, l.lo)
		c.assume(st, f.Eq(f.SLen(nv), f.Ite(f.Le(f.Int(0), n), n, f.Int(0))))
		c.heapSet(st, l.key, f.Store(c.heapGet(st, l.key, c.heapSort[l.key]), l.ref, f.SSplice(reg, l.lo, nv)), l.ref)
	default:
		c.frameCheck(st, l.key, l.ref, nil, nil, pos)
		if l.lv != nil {
			s := l.sort
			nv := f.Fresh("havoc."+sanitize(l.key), s)
			c.assumeWF(st, nv, l.lv.typ)
			c.store(st, l.lv, nv)
		}
	}
}

// ---------------------------------------------------------------------------
// builtins

func (fr *frame) builtin(x *ssa.Call, name string, args []Value, st *State, pos string) Value {
	c := fr.c
	f := c.f
	switch name {
	case "len", "cap":
		at := x.Call.Args[0].Type()
		v, _ := args[0].(*Term)
		switch u := at.Underlying().(type) {
		case *types.Slice:
			if name == "len" {
				return f.SlLen(v)
			}
			return f.SlCap(v)
		case *types.Basic:
			return f.SLen(v)
		case *types.Array:
			return f.Int(u.Len())
		case *types.Pointer:
			if arr, ok := u.Elem().Underlying().(*types.Array); ok {
				return f.Int(arr.Len())
			}
		case *types.Map:
			f.DeclareFun("maplen", []Sort{SInt}, SInt)
			t := f.App("maplen", SInt, v)
			c.f.SetRange(t, bi(0), nil)
			return t
		}
	case "append":
		return fr.appendBuiltin(x, args, st, pos)
	case "copy":
		return fr.copyBuiltin(x, args, st, pos)
	case "min", "max":
		a, b := args[0].(*Term), args[1].(*Term)
		if name == "min" {
			return f.Ite(f.Le(a, b), a, b)
		}
		return f.Ite(f.Le(a, b), b, a)
	case "print", "println":
		return nil
	case "delete":
		m := args[0].(*Term)
		k := args[1].(*Term)
		_, _, dk, _ := c.mapSorts(x.Call.Args[0].Type())
		dom := c.heapGet(st, dk, c.heapSort[dk])
		c.frameCheck(st, dk, m, nil, nil, pos)
		c.heapSet(st, dk, f.Store(dom, m, f.Store(f.Select(dom, m), k, f.False())), m)
		return nil
	}
	c.unsupported("builtin %s at %s", name, pos)
	return c.havocResults(st, x.Call.Signature().Results(), name)
}

func (fr *frame) appendBuiltin(x *ssa.Call, args []Value, st *State, pos string) Value {
	c := fr.c
	s := args[0].(*Term)
	st0 := x.Call.Args[0].Type()
	seq := c.elemSeqSort(st0)
	var add *Term // sequence of appended elements
	at := x.Call.Args[1].Type()
	if b, ok := at.Underlying().(*types.Basic); ok && b.Info()&types.IsString != 0 {
		add = args[1].(*Term)
	} else {
		add = c.sliceContent(st, seq, args[1].(*Term))
	}
	return c.appendSeq(st, seq, st0, s, add, pos)
}

// appendSeq implements Go's append: in place when capacity suffices, otherwise a fresh array.
func (c *FnCtx) appendSeq(st *State, seq Sort, sliceT types.Type, s, add *Term, pos string) *Term {
	f := c.f
	n := f.SLen(add)
	ref, off, ln, cp := f.SlRef(s), f.SlOff(s), f.SlLen(s), f.SlCap(s)
	newLen := f.Add(ln, n)
	fits := f.Le(newLen, cp)
	// in-place branch
	inplace := st.clone()
	c.assume(inplace, f.And(fits, f.Lt(f.Int(0), n)))
	c.frameCheck(inplace, memKey(seq), ref, f.Add(off, ln), f.Add(off, newLen), pos)
	reg := c.regionOf(st, seq, ref)
	// fresh branch
	et := sliceT.Underlying().(*types.Slice).Elem()
	c.allocCheck(st, f.Ite(fits, f.Int(0), f.Mul(f.Int(2*c.sizeof(et)), newLen)), pos)
	nref := c.alloc(st, 1)
	spare := f.Fresh("append.spare", seq)
	old := f.SSub(reg, off, f.Add(off, ln))
	ncap := f.Add(newLen, f.SLen(spare))
	c.assume(st, f.Le(ncap, f.IntB(maxLen)))
	mem := c.memOf(st, seq)
	// one store: at the old array when the elements fit (an empty append rewrites the array with itself),
	// at a new array otherwise
	tref := f.Ite(fits, ref, nref)
	content := f.Ite(fits, f.SSplice(reg, f.Add(off, ln), add), f.SCat(old, f.SCat(add, spare)))
	c.heapSet(st, memKey(seq), f.Store(mem, tref, content), ref)
	if c.dry > 0 {
		c.writeLog = append(c.writeLog, writeRec{memKey(seq), nref})
	}
	toff := f.Ite(fits, off, f.Int(0))
	// Derived facts about the result (consequences of the sequence axioms under the slice's well-formedness,
	// stated explicitly because the solvers do not find the extensionality steps on their own):
	// the old elements are kept, the new ones follow.
	guard := f.And(f.Le(f.Int(0), off), f.Le(f.Int(0), ln), f.Le(f.Add(off, ln), f.SLen(reg)),
		f.Implies(fits, f.Le(f.Add(off, newLen), f.SLen(reg))))
	if os.Getenv("GOVC_NO_DERIVED") == "" {
		c.assume(st, f.Implies(guard, f.And(
			f.SEq(f.SSub(content, toff, f.Add(toff, ln)), old),
		f.SEq(f.SSub(content, f.Add(toff, ln), f.Add(toff, newLen)), add),
			f.SEq(f.SSub(content, toff, f.Add(toff, newLen)), f.SCat(old, add)))))
	}
	return f.MkSl(tref, toff, newLen, f.Ite(fits, cp, ncap))
}

func (fr *frame) copyBuiltin(x *ssa.Call, args []Value, st *State, pos string) Value {
	c := fr.c
	f := c.f
	dst := args[0].(*Term)
	seq := c.elemSeqSort(x.Call.Args[0].Type())
	var src, srcLen *Term
	at := x.Call.Args[1].Type()
	if b, ok := at.Underlying().(*types.Basic); ok && b.Info()&types.IsString != 0 {
		src = args[1].(*Term)
		srcLen = f.SLen(src)
	} else {
		sv := args[1].(*Term)
		src = c.sliceContent(st, seq, sv)
		srcLen = f.SlLen(sv)
	}
	dl := f.SlLen(dst)
	n := f.Ite(f.Le(dl, srcLen), dl, srcLen)
	part := f.SSub(src, f.Int(0), n)
	ref, off := f.SlRef(dst), f.SlOff(dst)
	c.frameCheck(st, memKey(seq), ref, off, f.Add(off, n), pos)
	reg := c.regionOf(st, seq, ref)
	mem := c.memOf(st, seq)
	c.heapSet(st, memKey(seq), f.Ite(f.Eq(n, f.Int(0)), mem, f.Store(mem, ref, f.SSplice(reg, off, part))), ref)
	return n
}

// ---------------------------------------------------------------------------
// vspec intrinsics

func (fr *frame) vspecIntrinsic(x *ssa.Call, name string, fn *ssa.Function, args []Value, st *State, pos string) (Value, bool) {
	c := fr.c
	f := c.f
	if i := strings.Index(name, "["); i >= 0 {
		name = name[:i]
	}
	switch name {
	case "Vassert":
		cond := args[0].(*Term)
		if c.ghost > 0 {
			return nil, true
		}
		c.oblige(st, "assert", cond, pos, "lemma assertion")
		return nil, true
	case "Vassume":
		c.assume(st, args[0].(*Term))
		return nil, true
	case "Old", "Old2", "Old3":
		var v Value
		if len(args) == 1 {
			v = args[0]
		} else {
			v = Tuple(args)
		}
		switch c.oldMode {
		case 1:
			c.oldVals[x] = v
			return v, true
		case 2:
			if ov, ok := c.oldVals[x]; ok {
				return ov, true
			}
		}
		return v, true
	case "Forall", "Exists":
		lo, hi := args[0].(*Term), args[1].(*Term)
		var cfn *ssa.Function
		var binds []Value
		switch cl := args[2].(type) {
		case *Closure:
			cfn, binds = cl.Fn, cl.Bindings
		case *FuncVal:
			cfn = cl.Fn
		default:
			c.unsupported("quantifier body is not a function literal at %s", pos)
			return f.Fresh("q", SBool), true
		}
		// old(...) under the binder: the recording pass and the replay pass must use the same bound variable
		var i *Term
		switch c.oldMode {
		case 1:
			i = f.BoundVar("i", SInt)
			c.oldBinders[x] = i
		case 2:
			if bv := c.oldBinders[x]; bv != nil {
				i = bv
			}
		}
		if i == nil {
			i = f.BoundVar("i", SInt)
		}
		if lo.ival != nil && hi.ival != nil && i.lo == nil && i.hi == nil {
			// the body is only ever used under lo <= i < hi: constant bounds feed the interval analysis
			f.SetRange(i, lo.ival, new(big.Int).Sub(hi.ival, big.NewInt(1)))
		}
		tmp := st.clone()
		tmp.P = f.True()
		c.ghost++
		c.inQuant++
		res, out := c.exec(cfn, []Value{i}, binds, tmp)
		c.inQuant--
		c.ghost--
		body, ok := res.(*Term)
		if !ok || out == nil {
			c.unsupported("quantifier body did not evaluate at %s", pos)
			return f.Fresh("q", SBool), true
		}
		rng := f.And(f.mk("<=", SBool, "", lo, i), f.mk("<", SBool, "", i, hi))
		if lp := out.localP(f); lp.op != "true" {
			// type invariants of values loaded inside the body (well-formed slice headers, ...) and facts
			// assumed there hold for every index: they are assumed as a separate quantified fact
			c.assume(st, f.Forall([]*Term{i}, f.Implies(rng, lp)))
		}
		if name == "Forall" {
			// forall i (R(i) => forall j (S(i,j) => B(i,j))) is stated as one quantifier over (i, j) whose
			// patterns are those of the inner one when they mention i: the solvers do not instantiate
			// the outer variable of a nested quantifier reliably.
			if body.op == "forall" && len(body.args) == 1 && body.args[0].op == "=>" && len(body.qvars) >= 1 {
				inner := body.args[0]
				var pats [][]*Term
				for _, p := range body.pats {
					ok := false
					for _, t := range p {
						if f.mentions(t, i) {
							ok = true
						}
					}
					if ok {
						pats = append(pats, p)
					}
				}
				if len(pats) > 0 {
					vars := append([]*Term{i}, body.qvars...)
					return f.Forall(vars, f.Implies(f.And(rng, inner.args[0]), inner.args[1]), pats...), true
				}
			}
			return f.Forall([]*Term{i}, f.Implies(rng, body), indexPatterns(body, i)...), true
		}
		return f.Exists([]*Term{i}, f.And(rng, body)), true
	case "ForallStr":
		var cfn *ssa.Function
		var binds []Value
		switch cl := args[0].(type) {
		case *Closure:
			cfn, binds = cl.Fn, cl.Bindings
		case *FuncVal:
			cfn = cl.Fn
		default:
			c.unsupported("quantifier body is not a function literal at %s", pos)
			return f.Fresh("q", SBool), true
		}
		var sv *Term
		switch c.oldMode {
		case 1:
			sv = f.BoundVar("s", SB)
			c.oldBinders[x] = sv
		case 2:
			sv = c.oldBinders[x]
		}
		if sv == nil {
			sv = f.BoundVar("s", SB)
		}
		tmp := st.clone()
		tmp.P = f.True()
		c.ghost++
		c.inQuant++
		res, out := c.exec(cfn, []Value{sv}, binds, tmp)
		c.inQuant--
		c.ghost--
		body, ok := res.(*Term)
		if !ok || out == nil {
			c.unsupported("quantifier body did not evaluate at %s", pos)
			return f.Fresh("q", SBool), true
		}
		if lp := out.localP(f); lp.op != "true" {
			c.assume(st, f.Forall([]*Term{sv}, lp))
		}
		return f.Forall([]*Term{sv}, body, indexPatterns(body, sv)...), true
	case "Fresh":
		switch v := args[0].(type) {
		case *Term:
			if v.sort == SSl {
				return c.isFreshRel(f.SlRef(v)), true
			}
			if v.sort == SInt {
				return c.isFreshRel(v), true
			}
			if v.sort == SIf {
				return c.isFreshRel(f.IfVal(v)), true
			}
		}
		c.unsupported("fresh() of unsupported value at %s", pos)
		return f.True(), true
	case "PreExisting":
		if v, ok := args[0].(*Term); ok {
			ref := v
			if v.sort == SSl {
				ref = f.SlRef(v)
			} else if v.sort == SIf {
				ref = f.IfVal(v)
			}
			return f.Le(ref, c.alpha0), true
		}
		return f.True(), true
	case "Extends":
		a, b := args[0].(*Term), args[1].(*Term)
		return f.And(f.Eq(f.SlRef(a), f.SlRef(b)), f.Eq(f.SlOff(a), f.SlOff(b)), f.Eq(f.SlCap(a), f.SlCap(b)), f.Le(f.SlLen(b), f.SlLen(a))), true
	case "SpareDisjoint":
		b, v := args[0].(*Term), args[1].(*Term)
		lo := f.Add(f.SlOff(b), f.SlLen(b))
		hi := f.Add(f.SlOff(b), f.SlCap(b))
		vlo := f.SlOff(v)
		vhi := f.Add(vlo, f.SlLen(v))
		return f.Or(f.Not(f.Eq(f.SlRef(b), f.SlRef(v))), f.Le(vhi, lo), f.Le(hi, vlo), f.Eq(f.SlLen(v), f.Int(0))), true
	case "SameSlice":
		a, b := args[0].(*Term), args[1].(*Term)
		return f.And(f.Eq(f.SlLen(a), f.SlLen(b)),
			f.Or(f.Eq(f.SlLen(a), f.Int(0)), f.And(f.Eq(f.SlRef(a), f.SlRef(b)), f.Eq(f.SlOff(a), f.SlOff(b))))), true
	case "AssignsWhen":
		if c.asgOut != nil {
			c.asgCond = args[0].(*Term)
		}
		return nil, true
	case "AssignsAt":
		if c.asgOut == nil {
			return nil, true
		}
		switch p := args[0].(type) {
		case *LV:
			if p.elem {
				*c.asgOut = append(*c.asgOut, assignLoc{key: p.key, ref: p.ref, region: true, lo: p.idx, hi: f.Add(p.idx, f.Int(1))})
			} else {
				*c.asgOut = append(*c.asgOut, assignLoc{key: p.key, ref: p.ref, lv: p, sort: elemSort(c.heapSort[p.key])})
			}
		case *Term:
			// pointer to struct / array: the whole object
			pt := x.Call.Args[0].Type().Underlying().(*types.Pointer).Elem()
			if si := c.structInfoOf(pt); si != nil {
				*c.asgOut = append(*c.asgOut, assignLoc{whole: true, ref: p, hi: f.Add(p, f.Int(int64(si.size))), si: si, styp: pt})
			} else if arr, ok := pt.Underlying().(*types.Array); ok {
				seq, _ := c.sortOf(pt)
				c.declareHeapKey(memKey(seq), seq)
				*c.asgOut = append(*c.asgOut, assignLoc{key: memKey(seq), ref: p, region: true, lo: f.Int(0), hi: f.Int(arr.Len())})
			}
		}
		return nil, true
	case "AssignsObject":
		if c.asgOut == nil {
			return nil, true
		}
		iv, ok := args[0].(*Term)
		if !ok || iv.sort != SIf {
			c.unsupported("object(...) in assigns needs an interface value at %s", pos)
			return nil, true
		}
		it, _ := x.Call.Args[0].Type().Underlying().(*types.Interface)
		if it == nil {
			c.unsupported("object(...) in assigns needs an interface-typed expression at %s", pos)
			return nil, true
		}
		// closed world: the dynamic type is a pointer to a struct type declared in the module
		for _, nt := range c.e.moduleStructs() {
			pt := types.NewPointer(nt)
			if !types.Implements(pt, it) {
				continue
			}
			si := c.structInfoOf(nt)
			if si == nil {
				continue
			}
			ref := f.IfVal(iv)
			cond := f.Eq(f.IfTyp(iv), f.Int(int64(c.e.TypeID(pt))))
			*c.asgOut = append(*c.asgOut, assignLoc{whole: true, ref: ref, hi: f.Add(ref, f.Int(int64(si.size))), si: si, styp: nt, cond: cond})
		}
		return nil, true
	case "AssignsElems", "AssignsSpare":
		if c.asgOut == nil {
			return nil, true
		}
		s := args[0].(*Term)
		seq := c.elemSeqSort(x.Call.Args[0].Type())
		c.declareHeapKey(memKey(seq), seq)
		off, ln, cp := f.SlOff(s), f.SlLen(s), f.SlCap(s)
		if name == "AssignsElems" {
			*c.asgOut = append(*c.asgOut, assignLoc{key: memKey(seq), ref: f.SlRef(s), region: true, lo: off, hi: f.Add(off, ln)})
		} else {
			*c.asgOut = append(*c.asgOut, assignLoc{key: memKey(seq), ref: f.SlRef(s), region: true, lo: f.Add(off, ln), hi: f.Add(off, cp)})
		}
		return nil, true
	case "SameMap":
		return f.Eq(args[0].(*Term), args[1].(*Term)), true
	case "AssignsMap":
		if c.asgOut == nil {
			return nil, true
		}
		m := args[0].(*Term)
		_, _, dk, vk := c.mapSorts(x.Call.Args[0].Type())
		*c.asgOut = append(*c.asgOut, assignLoc{key: dk, ref: m, lv: &LV{key: dk, ref: m}, sort: elemSort(c.heapSort[dk])},
			assignLoc{key: vk, ref: m, lv: &LV{key: vk, ref: m}, sort: elemSort(c.heapSort[vk])})
		return nil, true
	case "MapSame", "MapSameExcept":
		// two-state predicates on a map: compare with its content in the old state
		m := args[0].(*Term)
		_, _, dk, vk := c.mapSorts(x.Call.Args[0].Type())
		dom := f.Select(c.heapGet(st, dk, c.heapSort[dk]), m)
		val := f.Select(c.heapGet(st, vk, c.heapSort[vk]), m)
		switch c.oldMode {
		case 1:
			c.oldVals[x] = Tuple{dom, val}
			return f.True(), true
		case 2:
			if ov, ok := c.oldVals[x].(Tuple); ok {
				od, ovl := ov[0].(*Term), ov[1].(*Term)
				if name == "MapSame" {
					return f.And(f.Eq(dom, od), f.Eq(val, ovl)), true
				}
				k := args[1].(*Term)
				return f.And(f.Eq(dom, f.Store(od, k, f.Select(dom, k))), f.Eq(val, f.Store(ovl, k, f.Select(val, k)))), true
			}
		}
		return f.True(), true
	case "AssignsGhost":
		if c.asgOut == nil || c.lastGhost == nil {
			return nil, true
		}
		lv := c.lastGhost
		*c.asgOut = append(*c.asgOut, assignLoc{key: lv.key, ref: lv.ref, lv: lv, sort: elemSort(c.heapSort[lv.key])})
		return nil, true
	case "B1":
		return f.SOne(SB, args[0].(*Term)), true
	case "U16":
		v := args[0].(*Term)
		return f.SCat(f.SOne(SB, f.Div(v, f.Int(256))), f.SOne(SB, f.Mod(v, f.Int(256)))), true
	case "Zeros":
		return f.SRep(SB, f.Int(0), args[0].(*Term)), true
	}
	return nil, false
}

// isFreshAt: a reference allocated after function entry.
func (c *FnCtx) isFreshAt(ref *Term) *Term { return c.f.Gt(ref, c.alpha0) }

// ---------------------------------------------------------------------------
// Go-coded semantics for a few dependency functions that take closures

type extHandler func(fr *frame, x *ssa.Call, args []Value, st *State, pos string) Value

var extIntrinsics = map[string]extHandler{}

// invokeIntrinsics: interface methods whose contract (specs/*.go) is implemented as a direct update of
// ghost state. A handler may decline (handled=false); the contract is then used.
var invokeIntrinsics = map[string]func(fr *frame, x *ssa.Call, args []Value, st *State, pos string) (Value, bool){}

func init() {
	newHash := func(alg int64) extHandler {
		return func(fr *frame, x *ssa.Call, args []Value, st *State, pos string) Value {
			c := fr.c
			f := c.f
			ref := c.alloc(st, 1)
			h := f.MkIf(f.Int(int64(c.e.TypeID(types.NewPointer(types.Typ[types.Uint8])))+1000), ref)
			c.store(st, c.ghostLV("HashAlg", ref), f.Int(alg))
			c.store(st, c.ghostLV("HashInput", ref), f.SEmpty(SB))
			return h
		}
	}
	// hkdf.New(h, secret, salt, info): the reader remembers its inputs (ghost); only SHA-384 is modelled
	extIntrinsics["golang.org/x/crypto/hkdf.New"] = func(fr *frame, x *ssa.Call, args []Value, st *State, pos string) Value {
		c := fr.c
		f := c.f
		is384 := false
		if fv, ok := args[0].(*FuncVal); ok && FnKey(fv.Fn) == "crypto/sha512.New384" {
			is384 = true
		} else {
			c.note("hkdf.New with a hash other than sha512.New384 at %s: output left unspecified", pos)
		}
		ref := c.alloc(st, 1)
		r := f.MkIf(f.Int(int64(c.e.TypeID(types.NewPointer(types.Typ[types.Uint16])))+1000), ref)
		c.store(st, c.ghostLV("HKDFIkm", ref), c.sliceContent(st, SB, args[1].(*Term)))
		c.store(st, c.ghostLV("HKDFSalt", ref), c.sliceContent(st, SB, args[2].(*Term)))
		c.store(st, c.ghostLV("HKDFInfo", ref), c.sliceContent(st, SB, args[3].(*Term)))
		c.store(st, c.ghostLV("HKDFIs384", ref), f.Bool(is384))
		return r
	}
	extIntrinsics["crypto/sha512.New384"] = newHash(384)
	extIntrinsics["crypto/sha512.New"] = newHash(512)
	extIntrinsics["crypto/sha256.New"] = newHash(256)
	invokeIntrinsics["(io.Writer).Write"] = func(fr *frame, x *ssa.Call, args []Value, st *State, pos string) (Value, bool) {
		c := fr.c
		f := c.f
		w, ok := args[0].(*Term)
		if !ok || w.sort != SIf {
			return nil, false
		}
		c.oblige(st, "nil", f.Not(f.Eq(f.IfTyp(w), f.Int(0))), pos, "method call on nil interface")
		ref := f.IfVal(w)
		lv := c.ghostLV("HashInput", ref)
		p := args[1].(*Term)
		c.frameCheck(st, lv.key, ref, nil, nil, pos)
		c.store(st, lv, f.SCat(c.load(st, lv), c.sliceContent(st, SB, p)))
		return Tuple{f.SlLen(p), f.MkIf(f.Int(0), f.Int(0))}, true
	}
}

const cbPath = "golang.org/x/crypto/cryptobyte"

func init() {
	extIntrinsics["(*"+cbPath+".Builder).AddUint8LengthPrefixed"] = builderLenPrefixed(1)
	extIntrinsics["(*"+cbPath+".Builder).AddUint16LengthPrefixed"] = builderLenPrefixed(2)
	extIntrinsics["(*"+cbPath+".Builder).AddUint24LengthPrefixed"] = builderLenPrefixed(3)
	// The fixed-width writers: same meaning as their //@ ext contracts in specs/cryptobyte.go, implemented
	// as direct updates of the ghost content so that encodings stay explicit concatenations.
	extIntrinsics[cbPath+".NewBuilder"] = func(fr *frame, x *ssa.Call, args []Value, st *State, pos string) Value {
		c := fr.c
		bt := x.Call.Signature().Results().At(0).Type().Underlying().(*types.Pointer).Elem()
		b := c.allocStruct(st, bt)
		buf := args[0].(*Term)
		// The model hands out the written bytes in fresh memory. A builder started on a buffer with
		// capacity writes into that buffer instead: outside the model, and a frame question.
		c.oblige(st, "frame", c.f.Eq(c.f.SlCap(buf), c.f.Int(0)), pos, "cryptobyte.NewBuilder is given a buffer without capacity (the builder would otherwise write into the caller's buffer)")
		c.store(st, c.ghostLV("BuilderBytes", b), c.sliceContent(st, SB, buf))
		c.store(st, c.ghostLV("BuilderErr", b), c.f.False())
		return b
	}
	add := func(mk func(c *FnCtx, st *State, x *ssa.Call, v Value) *Term) extHandler {
		return func(fr *frame, x *ssa.Call, args []Value, st *State, pos string) Value {
			c := fr.c
			f := c.f
			b, ok := args[0].(*Term)
			if !ok {
				c.unsupported("builder receiver is not first-order at %s", pos)
				return nil
			}
			c.nilCheck(st, b, pos)
			lv := c.ghostLV("BuilderBytes", b)
			old := c.load(st, lv)
			err := c.load(st, c.ghostLV("BuilderErr", b))
			c.frameCheck(st, lv.key, b, nil, nil, pos)
			c.store(st, lv, f.Ite(err, old, f.SCat(old, mk(c, st, x, args[1]))))
			return nil
		}
	}
	extIntrinsics["(*"+cbPath+".Builder).AddUint8"] = add(func(c *FnCtx, st *State, x *ssa.Call, v Value) *Term {
		return c.f.SOne(SB, v.(*Term))
	})
	extIntrinsics["(*"+cbPath+".Builder).AddUint16"] = add(func(c *FnCtx, st *State, x *ssa.Call, v Value) *Term {
		t := v.(*Term)
		return c.f.SCat(c.f.SOne(SB, c.f.Div(t, c.f.Int(256))), c.f.SOne(SB, c.f.Mod(t, c.f.Int(256))))
	})
	extIntrinsics["(*"+cbPath+".Builder).AddBytes"] = add(func(c *FnCtx, st *State, x *ssa.Call, v Value) *Term {
		return c.sliceContent(st, SB, v.(*Term))
	})
	extIntrinsics["(*"+cbPath+".Builder).BytesOrPanic"] = func(fr *frame, x *ssa.Call, args []Value, st *State, pos string) Value {
		c := fr.c
		b := args[0].(*Term)
		c.nilCheck(st, b, pos)
		err := c.load(st, c.ghostLV("BuilderErr", b))
		c.oblige(st, "panic", c.f.Not(err), pos, "BytesOrPanic: no length prefix overflowed")
		return c.bytesToFreshSlice(st, c.load(st, c.ghostLV("BuilderBytes", b)), "builder.bytes")
	}
	// Bytes: (written bytes, nil) unless a length prefix overflowed, then (nil, error)
	extIntrinsics["(*"+cbPath+".Builder).Bytes"] = func(fr *frame, x *ssa.Call, args []Value, st *State, pos string) Value {
		c := fr.c
		f := c.f
		b := args[0].(*Term)
		c.nilCheck(st, b, pos)
		errB := c.load(st, c.ghostLV("BuilderErr", b))
		res := x.Call.Signature().Results()
		ev, _ := c.freshValue(st, "builder.err", res.At(1).Type()).(*Term)
		c.assume(st, f.Eq(f.Not(f.Eq(f.IfTyp(ev), f.Int(0))), errB))
		sl := c.bytesToFreshSlice(st, c.load(st, c.ghostLV("BuilderBytes", b)), "builder.bytes")
		return Tuple{f.Ite(errB, c.zeroOfSort(SSl, res.At(0).Type()), sl), ev}
	}
}

// ghostLV returns the location of ghost field name (a `//@ spec ghost` function in vspec) of object ref.
func (c *FnCtx) ghostLV(name string, ref *Term) *LV {
	key := VspecPath + "." + name
	ct := c.e.Contracts.ByKey[key]
	fn := c.e.FnByKey[key]
	if ct == nil || fn == nil {
		c.unsupported("ghost field %s is not declared", name)
		return &LV{key: "G|" + key, ref: ref}
	}
	rt := fn.Signature.Results().At(0).Type()
	rs, _ := c.sortOf(rt)
	c.declareHeapKey("G|"+key, rs)
	return &LV{key: "G|" + key, ref: ref, typ: rt}
}

func (fr *frame) callFuncValue(fv Value, args []Value, st *State, pos string) Value {
	c := fr.c
	switch v := fv.(type) {
	case *Closure:
		return c.inlineCall(v.Fn, args, v.Bindings, st)
	case *FuncVal:
		return c.inlineCall(v.Fn, args, nil, st)
	}
	c.unsupported("call of a non-static function value at %s", pos)
	return nil
}

// builderLenPrefixed models Builder.AddUintNLengthPrefixed(f): run f on an empty child builder, then append
// the big-endian length and the child's bytes; a length that does not fit sets the sticky error.
func builderLenPrefixed(lenLen int) extHandler {
	return func(fr *frame, x *ssa.Call, args []Value, st *State, pos string) Value {
		c := fr.c
		f := c.f
		b, ok := args[0].(*Term)
		if !ok {
			c.unsupported("builder receiver is not first-order at %s", pos)
			return nil
		}
		c.nilCheck(st, b, pos)
		bt := x.Call.Args[0].Type().Underlying().(*types.Pointer).Elem()
		child := c.allocStruct(st, bt)
		fr.callFuncValue(args[1], []Value{child}, st, pos)
		cb := c.load(st, c.ghostLV("BuilderBytes", child))
		ce := c.load(st, c.ghostLV("BuilderErr", child))
		pbLV := c.ghostLV("BuilderBytes", b)
		peLV := c.ghostLV("BuilderErr", b)
		pb := c.load(st, pbLV)
		pe := c.load(st, peLV)
		n := f.SLen(cb)
		max := new(big.Int).Sub(pow2(uint(8*lenLen)), bi(1))
		nerr := f.Or(pe, ce, f.Lt(f.IntB(max), n))
		var prefix *Term
		switch lenLen {
		case 1:
			prefix = f.SOne(SB, n)
		case 2:
			prefix = f.SCat(f.SOne(SB, f.Div(n, f.Int(256))), f.SOne(SB, f.Mod(n, f.Int(256))))
		default:
			prefix = f.SCatN(SB, f.SOne(SB, f.Div(n, f.Int(65536))), f.SOne(SB, f.Mod(f.Div(n, f.Int(256)), f.Int(256))), f.SOne(SB, f.Mod(n, f.Int(256))))
		}
		c.frameCheck(st, pbLV.key, b, nil, nil, pos)
		c.store(st, pbLV, f.Ite(nerr, pb, f.SCat(pb, f.SCat(prefix, cb))))
		c.store(st, peLV, nerr)
		return nil
	}
}

// allocStruct allocates a zeroed struct (including its ghost fields) and returns the reference.
func (c *FnCtx) allocStruct(st *State, t types.Type) *Term {
	si := c.structInfoOf(t)
	ref := c.alloc(st, si.size)
	c.storeStruct(st, si, ref, c.zeroOfSort(Sort(si.name), t))
	c.initGhost(st, t, ref)
	return ref
}

// initGhost zero-initialises the ghost fields declared for *t.
func (c *FnCtx) initGhost(st *State, t types.Type, ref *Term) {
	for key, ct := range c.e.Contracts.ByKey {
		if !ct.Ghost {
			continue
		}
		fn := c.e.FnByKey[key]
		if fn == nil || len(fn.Params) != 1 {
			continue
		}
		pt, ok := fn.Params[0].Type().Underlying().(*types.Pointer)
		if !ok || !types.Identical(pt.Elem(), t) {
			continue
		}
		rt := fn.Signature.Results().At(0).Type()
		rs, _ := c.sortOf(rt)
		c.declareHeapKey("G|"+key, rs)
		c.store(st, &LV{key: "G|" + key, ref: ref, typ: rt}, c.zeroOfSort(rs, rt))
	}
}

// indexPatterns proposes E-matching patterns for a quantifier over index i: every application in the body
// that has i as a direct argument of a sequence read, array read or specification function. Each is an
// alternative single-term pattern.
func indexPatterns(body, i *Term) [][]*Term {
	var pats [][]*Term
	seen := map[int]bool{}
	var walk func(t *Term)
	walk = func(t *Term) {
		if seen[t.id] || !t.bound {
			return
		}
		seen[t.id] = true
		direct := false
		for _, a := range t.args {
			if a == i {
				direct = true
			}
		}
		if direct && (strings.HasPrefix(t.op, "at$") || strings.HasPrefix(t.op, "spec$") || t.op == "select") {
			// the pattern may not contain other bound variables or interpreted arithmetic on i
			ok := true
			var chk func(x *Term)
			chk = func(x *Term) {
				if !x.bound {
					return
				}
				if x.op == "var" && x != i {
					ok = false
				}
				switch x.op {
				case "forall", "exists", "ite", "and", "or", "not", "=>", "=", "<", "<=":
					ok = false
				}
				for _, a := range x.args {
					chk(a)
				}
			}
			var chkGround func(x *Term)
			seenG := map[int]bool{}
			chkGround = func(x *Term) {
				if seenG[x.id] || !ok {
					return
				}
				seenG[x.id] = true
				switch x.op {
				case "forall", "exists", "ite", "and", "or", "not", "=>":
					ok = false
				}
				for _, a := range x.args {
					chkGround(a)
				}
			}
			chk(t)
			chkGround(t)
			if ok && len(pats) < 6 {
				pats = append(pats, []*Term{t})
			}
		}
		for _, a := range t.args {
			walk(a)
		}
	}
	walk(body)
	return pats
}
