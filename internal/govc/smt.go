package govc

import (
	"bytes"
	"context"
	"fmt"
	"os"
	"os/exec"
	"path/filepath"
	"strings"
	"sync"
	"time"
)

// Script is everything needed to pose obligations of one function to a solver.
type Script struct {
	f      *TermFactory
	Goals  []*Term
	Extra  []*Term // quantified axioms as terms (relevant to at least one goal)
	extraSyms []map[string]bool // specification symbols of each axiom in Extra
	Cover  *Term
	AxiomNames []string // origins of the global axioms relevant to the goals
	header string
}

func (c *FnCtx) buildScript() *Script {
	s := &Script{f: c.f}
	for _, o := range c.obls {
		s.Goals = append(s.Goals, o.Cond)
	}
	// keep only the axioms that (transitively) share an uninterpreted specification symbol with the goals
	syms := map[string]bool{}
	seen := map[int]bool{}
	var collect func(t *Term, into map[string]bool)
	collect = func(t *Term, into map[string]bool) {
		if seen[t.id] && into == nil {
			return
		}
		if strings.HasPrefix(t.op, "spec$") {
			into[t.op] = true
		}
		for _, a := range t.args {
			collect(a, into)
		}
	}
	walked := map[int]bool{}
	var walk func(t *Term)
	walk = func(t *Term) {
		if walked[t.id] {
			return
		}
		walked[t.id] = true
		if strings.HasPrefix(t.op, "spec$") {
			syms[t.op] = true
		}
		for _, a := range t.args {
			walk(a)
		}
	}
	for _, g := range s.Goals {
		walk(g)
	}
	if c.coverCond != nil {
		walk(c.coverCond)
	}
	axSyms := make([]map[string]bool, len(c.termAxioms))
	for i, ax := range c.termAxioms {
		m := map[string]bool{}
		w2 := map[int]bool{}
		var wk func(t *Term)
		wk = func(t *Term) {
			if w2[t.id] {
				return
			}
			w2[t.id] = true
			if strings.HasPrefix(t.op, "spec$") {
				m[t.op] = true
			}
			for _, a := range t.args {
				wk(a)
			}
		}
		wk(ax)
		axSyms[i] = m
	}
	used := make([]bool, len(c.termAxioms))
	for changed := true; changed; {
		changed = false
		for i := range c.termAxioms {
			if used[i] {
				continue
			}
			hit := len(axSyms[i]) == 0
			for sname := range axSyms[i] {
				if syms[sname] {
					hit = true
					break
				}
			}
			if hit {
				used[i] = true
				changed = true
				for sname := range axSyms[i] {
					syms[sname] = true
				}
			}
		}
	}
	for i, ax := range c.termAxioms {
		if used[i] {
			s.Extra = append(s.Extra, ax)
			s.extraSyms = append(s.extraSyms, axSyms[i])
			if n := c.axiomName[i]; n != "" {
				dup := false
				for _, x := range s.AxiomNames {
					if x == n {
						dup = true
					}
				}
				if !dup {
					s.AxiomNames = append(s.AxiomNames, n)
				}
			}
		}
	}
	_ = collect
	return s
}

// relevantAxioms: the axioms that (transitively) share an uninterpreted specification symbol with the given
// formulas. Axioms about symbols a goal does not mention cannot help its proof, and recursive definitions
// among them cost the solvers time (matching loops).
func (s *Script) relevantAxioms(goals []*Term) []*Term {
	if len(s.extraSyms) != len(s.Extra) {
		return s.Extra
	}
	syms := map[string]bool{}
	walked := map[int]bool{}
	var walk func(t *Term)
	walk = func(t *Term) {
		if walked[t.id] {
			return
		}
		walked[t.id] = true
		if strings.HasPrefix(t.op, "spec$") {
			syms[t.op] = true
		}
		for _, a := range t.args {
			walk(a)
		}
	}
	for _, g := range goals {
		walk(g)
	}
	used := make([]bool, len(s.Extra))
	for changed := true; changed; {
		changed = false
		for i := range s.Extra {
			if used[i] {
				continue
			}
			hit := len(s.extraSyms[i]) == 0
			for n := range s.extraSyms[i] {
				if syms[n] {
					hit = true
					break
				}
			}
			if hit {
				used[i] = true
				changed = true
				for n := range s.extraSyms[i] {
					syms[n] = true
				}
			}
		}
	}
	var out []*Term
	for i, ax := range s.Extra {
		if used[i] {
			out = append(out, ax)
		}
	}
	return out
}

func (f *TermFactory) declText() string {
	var sb strings.Builder
	sb.WriteString(preludeFixed)
	for _, d := range f.declOrd {
		if strings.HasPrefix(d, "seq:") {
			sb.WriteString(seqPrelude(f.seqs[d[4:]]))
		} else {
			sb.WriteString(f.dtypes[d[3:]])
			sb.WriteString("\n")
		}
	}
	return sb.String()
}

// Text renders a script that checks the conjunction of the selected goals (indices); nil = all.
func (s *Script) Text(sel []int, negate bool) string {
	return s.TextWith(sel, negate, nil)
}

// TextWith is Text with additional asserted formulas (used for the case-split stage of Discharge).
func (s *Script) TextWith(sel []int, negate bool, with []*Term) string {
	var goals []*Term
	if sel == nil {
		goals = s.Goals
	} else {
		for _, i := range sel {
			goals = append(goals, s.Goals[i])
		}
	}
	return s.TextFor(goals, negate, with)
}

// tfMu serialises term construction and printing during the (parallel) solving phase: the term factory
// is not safe for concurrent use.
var tfMu sync.Mutex

// TextFor renders a script for explicit goal formulas.
func (s *Script) TextFor(goals []*Term, negate bool, with []*Term) string {
	tfMu.Lock()
	defer tfMu.Unlock()
	f := s.f
	var sb strings.Builder
	sb.WriteString("(set-logic ALL)\n")
	sb.WriteString(f.declText())
	for _, n := range f.funOrd {
		sb.WriteString(f.funs[n])
		sb.WriteString("\n")
	}
	for _, c := range f.consts {
		fmt.Fprintf(&sb, "(declare-const |%s| %s)\n", c.name, c.sort)
	}
	for _, a := range f.axioms {
		sb.WriteString(a)
		sb.WriteString("\n")
	}
	roots := append([]*Term{}, f.ranges...)
	extra := s.relevantAxioms(append(append([]*Term{}, goals...), with...))
	roots = append(roots, extra...)
	hints := extHints(f, goals)
	hints = append(hints, with...)
	roots = append(roots, hints...)
	roots = append(roots, goals...)
	p := &Printer{f: f, defined: map[int]string{}, out: &strings.Builder{}, refs: map[int]int{}}
	txt := p.Define(roots...)
	sb.WriteString(p.out.String())
	nr := len(f.ranges) + len(extra) + len(hints)
	for i := 0; i < nr; i++ {
		fmt.Fprintf(&sb, "(assert %s)\n", txt[i])
	}
	gs := txt[nr:]
	if negate {
		if len(gs) == 1 {
			fmt.Fprintf(&sb, "(assert (not %s))\n", gs[0])
		} else {
			fmt.Fprintf(&sb, "(assert (not (and %s)))\n", strings.Join(gs, "\n  "))
		}
	} else {
		for _, g := range gs {
			fmt.Fprintf(&sb, "(assert %s)\n", g)
		}
	}
	sb.WriteString("(check-sat)\n")
	return sb.String()
}

type SolverRun struct {
	Solver string
	Answer string // unsat sat unknown timeout error
	Secs   float64
	Output string
}

type solverSpec struct {
	name string
	args func(file string, timeout time.Duration) []string
}

var solvers = []solverSpec{
	{"z3-4.8.12", func(file string, t time.Duration) []string {
		return []string{"/usr/bin/z3", fmt.Sprintf("-T:%d", int(t.Seconds())+1), "-smt2", file}
	}},
	{"z3-5.1.0", func(file string, t time.Duration) []string {
		return []string{"z3-new", fmt.Sprintf("-T:%d", int(t.Seconds())+1), "-smt2", file}
	}},
	{"cvc5-1.0", func(file string, t time.Duration) []string {
		return []string{"cvc5", fmt.Sprintf("--tlimit=%d", t.Milliseconds()), "--lang=smt2", file}
	}},
}

var solverSem = make(chan struct{}, 14)

// Race runs all solvers on the script; the first definite answer (unsat, or sat) wins.
// want = "unsat": returns as soon as one solver says unsat. All runs are reported.
func Race(script string, dir, name string, timeout time.Duration, needTwo bool) (string, []SolverRun) {
	return RaceWith(solvers, script, dir, name, timeout, needTwo)
}

func RaceWith(solvers []solverSpec, script string, dir, name string, timeout time.Duration, needTwo bool) (string, []SolverRun) {
	os.MkdirAll(dir, 0o755)
	file := filepath.Join(dir, sanitize(name)+".smt2")
	os.WriteFile(file, []byte(script), 0o644)
	ctx, cancel := context.WithCancel(context.Background())
	defer cancel()
	type res struct{ r SolverRun }
	ch := make(chan SolverRun, len(solvers))
	var wg sync.WaitGroup
	for _, sp := range solvers {
		wg.Add(1)
		go func(sp solverSpec) {
			defer wg.Done()
			solverSem <- struct{}{}
			defer func() { <-solverSem }()
			if ctx.Err() != nil {
				ch <- SolverRun{Solver: sp.name, Answer: "cancelled"}
				return
			}
			argv := sp.args(file, timeout)
			cctx, ccancel := context.WithTimeout(ctx, timeout+2*time.Second)
			defer ccancel()
			cmd := exec.CommandContext(cctx, argv[0], argv[1:]...)
			var out bytes.Buffer
			cmd.Stdout = &out
			cmd.Stderr = &out
			t0 := time.Now()
			cmd.Run()
			secs := time.Since(t0).Seconds()
			txt := strings.TrimSpace(out.String())
			first := txt
			if i := strings.IndexByte(txt, '\n'); i >= 0 {
				first = txt[:i]
			}
			// solvers may print warnings before the verdict
			for _, ln := range strings.Split(txt, "\n") {
				ln = strings.TrimSpace(ln)
				if ln == "unsat" || ln == "sat" || ln == "unknown" || ln == "timeout" {
					first = ln
					break
				}
			}
			ans := "error"
			switch {
			case first == "unsat" || first == "sat" || first == "unknown":
				ans = first
			case first == "timeout" || strings.Contains(txt, "timeout") || strings.Contains(txt, "interrupted"):
				ans = "timeout"
			case cctx.Err() != nil:
				ans = "timeout"
				if ctx.Err() != nil {
					ans = "cancelled"
				}
			}
			if len(txt) > 600 {
				txt = txt[:600]
			}
			ch <- SolverRun{Solver: sp.name, Answer: ans, Secs: secs, Output: txt}
		}(sp)
	}
	go func() { wg.Wait(); close(ch) }()
	var runs []SolverRun
	unsat := 0
	verdict := "unknown"
	for r := range ch {
		runs = append(runs, r)
		if r.Answer == "unsat" {
			unsat++
			if !needTwo || unsat >= 2 {
				verdict = "unsat"
				cancel()
			}
		}
		if r.Answer == "sat" && verdict != "unsat" {
			verdict = "sat"
		}
	}
	if unsat > 0 && !needTwo {
		verdict = "unsat"
	}
	if needTwo && unsat == 1 {
		verdict = "unsat-single"
	}
	return verdict, runs
}

type SolveOptions struct {
	Timeout  time.Duration
	Dir      string
	NeedTwo  bool
	Select   func(o *Obligation) bool // which obligations matter (nil = all)
	KeepSMT  bool
}

// Discharge proves the obligations of a function result.
func (r *FnResult) Discharge(opt SolveOptions) {
	if r.Script == nil || len(r.Obls) == 0 {
		return
	}
	var idx []int
	for i, o := range r.Obls {
		if opt.Select == nil || opt.Select(o) {
			idx = append(idx, i)
		}
	}
	if len(idx) == 0 {
		return
	}
	base := sanitize(shortKey(r.Key))
	if len(idx) > 1 {
		v, runs := Race(r.Script.Text(idx, true), opt.Dir, base+"__all", opt.Timeout, false)
		if v == "unsat" {
			for _, i := range idx {
				r.Obls[i].Result = "discharged"
				r.Obls[i].Solver, r.Obls[i].Secs = winner(runs)
				r.Obls[i].Detail = "discharged as part of the conjunction of all obligations of the function"
				r.Obls[i].Agree = 1
			}
			if !opt.NeedTwo {
				return
			}
			// thorough tier: go on and decide every obligation on its own as well, recording how many
			// solvers agree
		}
	}
	var wg sync.WaitGroup
	// The expensive stages (cut, longer timeout) are spent on the first few obligations that need them:
	// a function with many undischarged obligations is reported as failing either way.
	var deepMu sync.Mutex
	deepLeft := 10
	longLeft := 3
	takeLong := func() bool {
		deepMu.Lock()
		defer deepMu.Unlock()
		if longLeft > 0 {
			longLeft--
			return true
		}
		return false
	}
	takeDeep := func() bool {
		deepMu.Lock()
		defer deepMu.Unlock()
		if deepLeft > 0 {
			deepLeft--
			return true
		}
		return false
	}
	for _, i := range idx {
		wg.Add(1)
		go func(i int) {
			defer wg.Done()
			o := r.Obls[i]
			name := base + "__" + sanitize(o.Kind) + fmt.Sprintf("_%d", i)
			tfMu.Lock()
			parts := splitGoal(r.Script.f, r.Script.Goals[i])
			tfMu.Unlock()
			type pres struct {
				v      string
				runs   []SolverRun
				detail string
			}
			out := make([]pres, len(parts))
			var pw sync.WaitGroup
			for k, g := range parts {
				pw.Add(1)
				go func(k int, g *Term) {
					defer pw.Done()
					pn := name
					if len(parts) > 1 {
						pn = fmt.Sprintf("%s__part%d", name, k)
					}
					v, runs, detail := r.proveGoal(g, pn, opt, takeDeep, takeLong)
					out[k] = pres{v, runs, detail}
				}(k, g)
			}
			pw.Wait()
			verdict := "unsat"
			var all []SolverRun
			var details []string
			var secs float64
			for k, pr := range out {
				all = append(all, pr.runs...)
				if pr.v != "unsat" && verdict != "sat" {
					verdict = pr.v
				}
				if len(parts) > 1 {
					if pr.v != "unsat" || pr.detail != "" {
						details = append(details, fmt.Sprintf("part %d/%d: %s %s", k+1, len(parts), pr.v, pr.detail))
					}
				} else if pr.detail != "" {
					details = append(details, pr.detail)
				}
				_, t := winner(pr.runs)
				secs += t
			}
			o.Solver, _ = winner(all)
			o.Secs = secs
			// agreement: the minimum over the parts of the number of distinct solvers answering unsat
			o.Agree = 0
			for k, pr := range out {
				seen := map[string]bool{}
				for _, rr := range pr.runs {
					if rr.Answer == "unsat" {
						seen[rr.Solver] = true
					}
				}
				if k == 0 || len(seen) < o.Agree {
					o.Agree = len(seen)
				}
			}
			if len(parts) > 1 {
				details = append([]string{fmt.Sprintf("goal split into %d conjuncts (one per return point / clause), each decided separately", len(parts))}, details...)
			}
			o.Detail = strings.Join(details, "; ")
			switch verdict {
			case "unsat":
				o.Result = "discharged"
			case "sat":
				o.Result = "refuted"
			default:
				o.Result = "unknown"
			}
		}(i)
	}
	wg.Wait()
}

// splitGoal: A => (c1 and ... and cn) is decided as the n goals A => ci (and a conjunction as its conjuncts).
func splitGoal(f *TermFactory, g *Term) []*Term {
	var out []*Term
	switch {
	case g.op == "and":
		for _, a := range g.args {
			out = append(out, splitGoal(f, a)...)
		}
	case g.op == "=>" && len(g.args) == 2 && g.args[1].op == "and":
		for _, c := range g.args[1].args {
			out = append(out, f.Implies(g.args[0], c))
		}
	default:
		out = []*Term{g}
	}
	if len(out) > 24 {
		return []*Term{g}
	}
	return out
}

// proveGoal: direct attempt, then the cut stage, then a longer timeout.
func (r *FnResult) proveGoal(g *Term, name string, opt SolveOptions, takeDeep, takeLong func() bool) (string, []SolverRun, string) {
	text := func(with []*Term) string { return r.Script.TextFor([]*Term{g}, true, with) }
	v, runs := Race(text(nil), opt.Dir, name, opt.Timeout, opt.NeedTwo)
	if v == "unsat-single" {
		// thorough tier: a second solver did not confirm within the timeout; the proof stands, the
		// evidence records that only one solver found it
		return "unsat", runs, ""
	}
	if v == "unsat" || v == "sat" {
		return v, runs, runDetail(runs, v)
	}
	if !takeDeep() {
		return "unknown", runs, "not discharged within the first timeout; the longer stages were spent on other obligations of this function"
	}
	// cut stage: G is valid if not-e and not-G is unsatisfiable for every e in a set E of formulas (so
	// not-G implies all of E) and E together with not-G is unsatisfiable.
	if ok, cruns, n := r.cutStage(g, opt, name); ok {
		return "unsat", cruns, fmt.Sprintf("discharged by a cut on %d sequence equalities between arguments of the same specification function (%d solver queries, all unsat)", n, n+1)
	}
	v2, runs2 := Race(text(nil), opt.Dir, name, 4*opt.Timeout, false)
	runs = append(runs, runs2...)
	if v2 == "unsat" || v2 == "sat" {
		return v2, runs, runDetail(runs, v2)
	}
	// last stage, for a loaded machine: if some solver was still working when it was stopped (time-out, not a
	// definite "unknown"), give the goal one long run
	timedOut := false
	for _, rr := range runs2 {
		if rr.Answer == "timeout" {
			timedOut = true
		}
	}
	if timedOut && takeLong() {
		v3, runs3 := Race(text(nil), opt.Dir, name, 12*opt.Timeout, false)
		runs = append(runs, runs3...)
		if v3 == "unsat" || v3 == "sat" {
			return v3, runs, runDetail(runs, v3)
		}
	}
	return "unknown", runs, runDetail(runs, "unknown")
}

func runDetail(runs []SolverRun, v string) string {
	if v == "unsat" {
		return ""
	}
	var ds []string
	for _, rr := range runs {
		ds = append(ds, fmt.Sprintf("%s:%s(%.2fs)", rr.Solver, rr.Answer, rr.Secs))
	}
	return strings.Join(ds, " ")
}

// cutStage tries to discharge obligation i by cutting on the equalities suggested by extHints.
func (r *FnResult) cutStage(g *Term, opt SolveOptions, name string) (bool, []SolverRun, int) {
	f := r.Script.f
	tfMu.Lock()
	hs := extHints(f, []*Term{g})
	seenH := map[int]bool{}
	for _, h := range hs {
		seenH[h.id] = true
	}
	for _, h := range extHintsMode(f, []*Term{g}, true) {
		if !seenH[h.id] {
			hs = append(hs, h)
		}
	}
	negs := make([]*Term, len(hs))
	for k, h := range hs {
		negs[k] = f.Not(h.args[0])
	}
	tfMu.Unlock()
	if len(hs) == 0 {
		return false, nil, 0
	}
	if len(hs) > 12 {
		hs = hs[:12]
	}
	type res struct {
		e    *Term
		ok   bool
		runs []SolverRun
	}
	out := make([]res, len(hs))
	var wg sync.WaitGroup
	for k, h := range hs {
		e := h.args[0]
		out[k].e = e
		wg.Add(1)
		go func(k int, e *Term) {
			defer wg.Done()
			v, runs := Race(r.Script.TextFor([]*Term{g}, true, []*Term{negs[k]}), opt.Dir, fmt.Sprintf("%s__cut%d", name, k), opt.Timeout, false)
			out[k].ok, out[k].runs = v == "unsat", runs
		}(k, e)
	}
	wg.Wait()
	var es []*Term
	var all []SolverRun
	for _, o := range out {
		if o.ok {
			es = append(es, o.e)
			s, t := winner(o.runs)
			all = append(all, SolverRun{Solver: s, Answer: "unsat", Secs: t})
		}
	}
	if len(es) == 0 {
		return false, nil, 0
	}
	// Each established e is the engine's (segment-wise) encoding of "a and b are the same sequence"; the
	// final query is also given a = b itself, which the solvers otherwise have to rebuild from the segments
	// through associativity of concatenation. It gets the longer time-out: its answer ends the stage.
	tfMu.Lock()
	for _, e := range append([]*Term{}, es...) {
		if p, ok := f.hintPair[e.id]; ok {
			x, y := p[0], p[1]
			if x.id > y.id {
				x, y = y, x
			}
			es = append(es, f.mk("=", SBool, "", x, y))
		}
	}
	tfMu.Unlock()
	v, runs := Race(r.Script.TextFor([]*Term{g}, true, es), opt.Dir, name+"__cutfinal", 4*opt.Timeout, false)
	if v != "unsat" {
		return false, nil, 0
	}
	s, t := winner(runs)
	all = append(all, SolverRun{Solver: s, Answer: "unsat", Secs: t})
	return true, all, len(es)
}

func winner(runs []SolverRun) (string, float64) {
	for _, r := range runs {
		if r.Answer == "unsat" {
			return r.Solver, r.Secs
		}
	}
	for _, r := range runs {
		if r.Answer == "sat" {
			return r.Solver, r.Secs
		}
	}
	if len(runs) > 0 {
		return runs[0].Solver, runs[0].Secs
	}
	return "", 0
}

// CheckSat runs the script expecting satisfiability information (vacuity guards).
func CheckSat(script, dir, name string, timeout time.Duration) (string, []SolverRun) {
	return Race(script, dir, name, timeout, false)
}

// extHints introduces the extensionality triggers the solvers do not find on their own: for two ground
// applications of the same uninterpreted specification function whose sequence arguments differ
// syntactically, the tautology eq(a,b) or not eq(a,b) puts the term eq(a,b) on the table, which fires the
// (skolemised) extensionality axiom. Pure hints: they do not change the meaning of the query.
func extHints(f *TermFactory, goals []*Term) []*Term {
	return extHintsMode(f, goals, false)
}

// extHintsMode with liberal set also pairs applications that both occur in the assumptions.
func extHintsMode(f *TermFactory, goals []*Term, liberal bool) []*Term {
	var out []*Term
	done := map[[2]int]bool{}
	addHint := func(a, b *Term) {
		if a == b || !strings.HasPrefix(string(a.sort), "Seq$") || a.sort != b.sort {
			return
		}
		key := [2]int{a.id, b.id}
		if a.id > b.id {
			key = [2]int{b.id, a.id}
		}
		if done[key] || len(out) >= 40 {
			return
		}
		done[key] = true
		e := f.SEq(a, b)
		if e.op == "true" || e.op == "false" {
			return
		}
		f.hintPair[e.id] = [2]*Term{a, b}
		out = append(out, f.mk("or", SBool, "", e, f.mk("not", SBool, "", e)))
	}
	collect := func(t *Term) map[string][]*Term {
		apps := map[string][]*Term{}
		seen := map[int]bool{}
		var walk func(t *Term)
		walk = func(t *Term) {
			if seen[t.id] {
				return
			}
			seen[t.id] = true
			if strings.HasPrefix(t.op, "spec$") && !t.bound {
				apps[t.op] = append(apps[t.op], t)
			}
			for _, a := range t.args {
				walk(a)
			}
		}
		walk(t)
		return apps
	}
	pair := func(xs, ys []*Term) {
		if len(xs) > 8 {
			xs = xs[:8]
		}
		if len(ys) > 8 {
			ys = ys[:8]
		}
		for _, x := range xs {
			for _, y := range ys {
				if x == y {
					continue
				}
				for k := range x.args {
					addHint(x.args[k], y.args[k])
				}
			}
		}
	}
	var flat []*Term
	for _, g := range goals {
		if g.op == "and" {
			flat = append(flat, g.args...)
		} else {
			flat = append(flat, g)
		}
	}
	for _, g := range flat {
		if g.op == "=>" && len(g.args) == 2 && !liberal {
			// applications in the conclusion against applications in the assumptions (and among the conclusion)
			ra, pa := collect(g.args[0]), collect(g.args[1])
			var names []string
			for n := range pa {
				names = append(names, n)
			}
			sortStrings(names)
			for _, n := range names {
				pair(pa[n], ra[n])
				pair(pa[n], pa[n])
			}
			continue
		}
		all := collect(g)
		var names []string
		for n := range all {
			names = append(names, n)
		}
		sortStrings(names)
		for _, n := range names {
			pair(all[n], all[n])
		}
	}
	return out
}

func sortStrings(xs []string) {
	for i := 1; i < len(xs); i++ {
		for j := i; j > 0 && xs[j] < xs[j-1]; j-- {
			xs[j], xs[j-1] = xs[j-1], xs[j]
		}
	}
}
