#!/usr/bin/env python3
"""Regenerates /verif/MANIFEST.json from the table below (claims, scope notes, not-applicable reasons)."""
import json, os
HERE = os.path.dirname(os.path.dirname(os.path.abspath(__file__)))
ENV = "GOFLAGS=-mod=mod GOPROXY=off GOSUMDB=off GOTOOLCHAIN=local"
TECH = "contract-based deductive verification: VCs generated from go/ssa of the real code against //@ contracts, discharged by z3 4.8.12 / z3 5.1.0 / cvc5 1.0"

CLAIMS = {}
NA = {}

def claim(pid, text, note):
    CLAIMS[pid] = (text, note)

def na(pid, reason):
    NA[pid] = reason

exec(open(os.path.join(HERE, "tools", "claims.py")).read())

props = [json.loads(l) for l in open(os.path.join(HERE, "properties.jsonl"))]
checks = []
for p in props:
    pid = p["id"]
    if pid in CLAIMS:
        text, note = CLAIMS[pid]
        checks.append({
            "property_id": pid,
            "quick_cmd": f"bin/govc check {pid} --tier quick",
            "thorough_cmd": f"bin/govc check {pid} --tier thorough",
            "evidence_file": f"/verif/evidence/{pid}.json",
            "replay_cmd_template": "cat {path}",
            "engine": "govc",
            "level_claimed": {"category": "proof", "text": text, "design_ref": "DESIGN.md section 0 (as built) and section 8 (plan)"},
            "level_note": note,
            "technique": TECH,
        })
missing = [p["id"] for p in props if p["id"] not in CLAIMS and p["id"] not in NA]
assert not missing, missing
m = {
    "version": 1,
    "setup_cmd": f"cd /verif && {ENV} go build -o bin/govc ./cmd/govc",
    "hooks": {
        "guard": "verif",
        "enable": "build tag `verif` (//go:build verif). Contracts, specification functions and lemmas live in zz_*_verif.go files next to the code and in internal/vspec. The checks load /repo with -tags=verif through go/packages with an overlay that adds (a) the assumed dependency contracts of /verif/specs/*.go to package internal/vspec and (b) the Go functions generated from the //@ clauses; the tagged files are therefore meant for the verifier's loader and do not compile with a plain `go build -tags verif` without that overlay. With the tag off (the default) none of these files is part of the build",
        "baseline_off_cmd": f"cd /repo && {ENV} go test -vet=off -count=1 ./...",
        "source_commits": [l.split()[0] for l in os.popen("git -C /repo log --oneline").read().splitlines() if "verif hooks" in l],
        "add_only": True,
    },
    "engines": [{"name": "govc", "path": "/verif/cmd/govc", "serves_properties": sorted(CLAIMS),
                 "kind_free_text": "verification-condition generator over go/ssa (symbolic execution, loops cut at invariants, calls by contract) with an SMT portfolio; counterexamples from a native-sequence encoding are replayed on the real code through generated in-package tests"}],
    "checks": checks,
    "not_applicable": [{"property_id": k, "reason": v} for k, v in sorted(NA.items())],
    "notes": "DESIGN.md describes the engine, the contract language, the trusted base and, per property, what is proved, what is assumed and what is not decided.",
}
json.dump(m, open(os.path.join(HERE, "MANIFEST.json"), "w"), indent=1)
print("claimed:", sorted(CLAIMS), "not applicable:", sorted(NA))
