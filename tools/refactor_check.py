#!/usr/bin/env python3
"""Must-pass corpus: applies behaviour-preserving refactorings (patches) to a scratch copy of the repository and
re-verifies every contract of the packages they touch (verification is modular: a change inside a function
can only affect that function's own obligations). Any failing obligation is a false alarm of the machinery.
Usage: refactor_check.py <patch> [<patch> ...]   (GOVC_REPO selects the pristine tree, default /repo)"""
import os, re, shutil, subprocess, sys, tempfile, concurrent.futures

VERIF = os.path.dirname(os.path.dirname(os.path.abspath(__file__)))
REPO = os.environ.get("GOVC_REPO", "/repo")
ENV = dict(os.environ, GOFLAGS="-mod=mod", GOPROXY="off", GOSUMDB="off", GOTOOLCHAIN="local")
MOD = "github.com/cloudflare/pat-go"

def run_one(path):
    path = os.path.abspath(path)
    tmp = tempfile.mkdtemp(prefix="govc-refactor-")
    try:
        dst = os.path.join(tmp, "repo")
        shutil.copytree(REPO, dst, ignore=shutil.ignore_patterns(".git"))
        r = subprocess.run(["patch", "-p1", "-s", "-d", dst, "-i", path], capture_output=True, text=True)
        if r.returncode != 0:
            return (path, "SKIP", "patch does not apply: " + r.stdout.strip()[:200])
        b = subprocess.run(["go", "build", "./..."], cwd=dst, env=ENV, capture_output=True, text=True)
        if b.returncode != 0:
            return (path, "SKIP", "does not compile: " + b.stderr.strip()[:300])
        dirs = sorted({os.path.dirname(m) for m in re.findall(r"^\+\+\+ b/(\S+\.go)", open(path).read(), re.M)})
        pats = []
        for d in dirs:
            pats.append((MOD + "/" + d if d else MOD) + ".")
            # methods are keyed as (*pkg.T).M / (pkg.T).M
        args = [os.path.join(VERIF, "bin/govc"), "fn", "-repo", dst, "-verif", VERIF, "-timeout", "15s"] + pats
        c = subprocess.run(args, cwd=VERIF, env=ENV, capture_output=True, text=True)
        fails = [l.strip()[:220] for l in c.stdout.splitlines() if l.strip().startswith("FAIL") or "ERROR" in l or "load failed" in l]
        nfun = sum(1 for l in c.stdout.splitlines() if l.startswith("== "))
        if c.returncode == 0 and not fails and nfun > 0:
            return (path, "OK", "%d functions re-verified in %s" % (nfun, ",".join(dirs)))
        return (path, "FALSE-ALARM", "; ".join(fails)[:600] or (c.stdout + c.stderr)[-300:])
    finally:
        shutil.rmtree(tmp, ignore_errors=True)

def main():
    bad = 0
    with concurrent.futures.ThreadPoolExecutor(max_workers=2) as ex:
        for path, status, info in ex.map(run_one, sys.argv[1:]):
            print("%-12s %-50s %s" % (status, os.path.relpath(path, VERIF) if path.startswith(VERIF) else path, info))
            if status == "FALSE-ALARM":
                bad += 1
    print("refactor corpus: %d patches, %d false alarms" % (len(sys.argv) - 1, bad))
    sys.exit(1 if bad else 0)

if __name__ == "__main__":
    main()
