#!/usr/bin/env python3
"""Confirms a seeded change produced by a sub-agent in /tmp/wt/<id> and files it under /verif/seeded/<id>/:
(1) repository builds and the existing suite passes with the change, (2) the demonstration fails with the
change and passes without it. Usage: seed_verify.py <id> [<name>]"""
import json, os, re, shutil, subprocess, sys
ENV = dict(os.environ, GOFLAGS="-mod=mod", GOPROXY="off", GOSUMDB="off", GOTOOLCHAIN="local")
PKGDIR = {"type1": "tokens/type1", "type2": "tokens/type2", "type3": "tokens/type3", "type5": "tokens/type5",
          "batched": "tokens/batched", "tokens": "tokens", "quicwire": "quicwire", "ecdsa": "ecdsa", "ed25519": "ed25519", "util": "util"}

def sh(cmd, cwd, timeout=1500):
    r = subprocess.run(cmd, cwd=cwd, env=ENV, shell=True, capture_output=True, text=True, timeout=timeout)
    return r.returncode, (r.stdout + r.stderr)

def main():
    pid = sys.argv[1]
    name = sys.argv[2] if len(sys.argv) > 2 else pid.lower() + "-agent"
    wt = os.environ.get("SEED_WT_ROOT", "/tmp/wt") + "/" + pid
    prop = pid[:3]
    patch = open(wt + "/MUTANT.diff").read()
    demo = open(wt + "/DEMO_test.go.txt").read()
    pkg = re.search(r"^package (\w+)", demo, re.M).group(1).replace("_test", "")
    pdir = PKGDIR[pkg]
    tests = re.findall(r"^func (Test\w+)\(", demo, re.M)
    run = "^(" + "|".join(tests) + ")$"
    # make sure the worktree has exactly the mutant applied
    sh("git checkout -q -- . && git clean -fdq -e MUTANT.diff -e DEMO_test.go.txt -e README.txt -e '*.diff'", wt)
    rc, out = sh("git apply MUTANT.diff", wt)
    assert rc == 0, "patch does not apply: " + out
    log = {}
    rc, out = sh("go build ./... && go test -vet=off -count=1 ./...", wt)
    log["suite_with_change"] = "pass" if rc == 0 else "FAIL\n" + out[-1500:]
    tf = os.path.join(wt, pdir, "zz_demo_seed_test.go")
    open(tf, "w").write(demo)
    race = " -race" if "race" in open(wt + "/README.txt").read().lower() and pid == "C17" else ""
    rc1, out1 = sh(f"go test -vet=off -count=1{race} -run '{run}' ./{pdir}/", wt)
    log["demo_with_change"] = "fails" if rc1 != 0 else "PASSES (unexpected)"
    sh("git apply -R MUTANT.diff", wt)
    rc2, out2 = sh(f"go test -vet=off -count=1{race} -run '{run}' ./{pdir}/", wt)
    log["demo_without_change"] = "passes" if rc2 == 0 else "FAILS (unexpected)\n" + out2[-1500:]
    os.remove(tf)
    sh("git apply MUTANT.diff", wt)
    ok = log["suite_with_change"] == "pass" and rc1 != 0 and rc2 == 0
    print(pid, json.dumps(log)[:600])
    if not ok:
        print("NOT CONFIRMED")
        sys.exit(1)
    dst = os.path.join("/verif/seeded", name)
    os.makedirs(dst, exist_ok=True)
    open(dst + "/patch.diff", "w").write(patch)
    open(dst + "/demo_test.go.txt", "w").write(demo)
    shutil.copy(wt + "/README.txt", dst + "/agent_README.txt")
    fails = [l for l in out1.splitlines() if "FAIL" in l or "panic" in l][:6]
    meta = {"property": prop, "source": "independent sub-agent given only the property text and a scratch worktree",
            "demo_package_dir": pdir, "demo_tests": tests,
            "confirmed": {"suite_with_change": "go build ./... && go test -vet=off -count=1 ./... : pass",
                          "demo_with_change": f"go test -run '{run}' ./{pdir}/ : FAIL", "demo_without_change": "same command: ok",
                          "demo_failure_excerpt": fails},
            "needs_to_manifest": "see agent_README.txt"}
    json.dump(meta, open(dst + "/meta.json", "w"), indent=1)
    print("CONFIRMED ->", dst)

main()
