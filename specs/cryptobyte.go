//go:build verif

package vspec

import (
	"golang.org/x/crypto/cryptobyte"
)

// The fixed-width readers of cryptobyte.String are not specified: they are in
// the modelled Go subset and are inlined from their source in the module
// cache (read, Skip, ReadUint8/16/24/32, ReadBytes, CopyBytes, Empty,
// Read*LengthPrefixed), so their bounds checks are proved, not assumed.
//
//@ extinline (*golang.org/x/crypto/cryptobyte.String).
//@ extinline (golang.org/x/crypto/cryptobyte.String).

//@ spec
func specLenPrefix(in string, lenLen int) int {
	switch lenLen {
	case 1:
		return int(in[0])
	case 2:
		return int(in[0])*256 + int(in[1])
	}
	return (int(in[0])*256+int(in[1]))*256 + int(in[2])
}

// readLengthPrefixed contains a loop over the (1..3) length bytes; it is given a contract
// read off its source instead of an invariant.
//
//@ ext (*golang.org/x/crypto/cryptobyte.String).readLengthPrefixed func(s *cryptobyte.String, lenLen int, outChild *cryptobyte.String) (ok bool)
//@ requires lenLen == 1 || lenLen == 2 || lenLen == 3
//@ let in = *s
//@ let n = specLenPrefix(string(*s), lenLen)
//@ ensures ok == (len(in) >= lenLen && len(in)-lenLen >= n)
//@ ensures ok ==> sameslice(*outChild, in[lenLen:lenLen+n]) && sameslice(*s, in[lenLen+n:]) && (*outChild != nil) && (*s != nil)
//@ ensures !ok && len(in) < lenLen ==> sameslice(*s, in) && (*s == nil) == (in == nil)
//@ ensures !ok && len(in) >= lenLen ==> sameslice(*s, in[lenLen:]) && *s != nil
//@ assigns *s, *outChild
//@ pure
//@ end

// ---------------------------------------------------------------------------
// Builder: the bytes written so far and the sticky error are ghost state.

//@ spec ghost
func BuilderBytes(b *cryptobyte.Builder) string { return "" }

//@ spec ghost
func BuilderErr(b *cryptobyte.Builder) bool { return false }

//@ ext golang.org/x/crypto/cryptobyte.NewBuilder func(buffer []byte) (b *cryptobyte.Builder)
//@ ensures b != nil && fresh(b) && BuilderBytes(b) == string(buffer) && !BuilderErr(b)
//@ assigns none
//@ end

//@ ext (*golang.org/x/crypto/cryptobyte.Builder).AddUint8 func(b *cryptobyte.Builder, v uint8)
//@ requires b != nil
//@ ensures BuilderErr(b) == old(BuilderErr(b))
//@ ensures !BuilderErr(b) ==> BuilderBytes(b) == old(BuilderBytes(b))+B1(v)
//@ assigns ghost(BuilderBytes(b))
//@ end

//@ ext (*golang.org/x/crypto/cryptobyte.Builder).AddUint16 func(b *cryptobyte.Builder, v uint16)
//@ requires b != nil
//@ ensures BuilderErr(b) == old(BuilderErr(b))
//@ ensures !BuilderErr(b) ==> BuilderBytes(b) == old(BuilderBytes(b))+U16(v)
//@ assigns ghost(BuilderBytes(b))
//@ end

//@ ext (*golang.org/x/crypto/cryptobyte.Builder).AddBytes func(b *cryptobyte.Builder, v []byte)
//@ requires b != nil
//@ ensures BuilderErr(b) == old(BuilderErr(b))
//@ ensures !BuilderErr(b) ==> BuilderBytes(b) == old(BuilderBytes(b))+string(v)
//@ assigns ghost(BuilderBytes(b))
//@ end

// BytesOrPanic panics when a length prefix overflowed. The result is modelled as a newly
// allocated slice (capacity unknown): in pat-go a builder is never written after its bytes
// were taken, so the aliasing between the builder's buffer and the result is not observable.
//
//@ ext (*golang.org/x/crypto/cryptobyte.Builder).BytesOrPanic func(b *cryptobyte.Builder) (res []byte)
//@ requires b != nil
//@ requires !BuilderErr(b)
//@ ensures string(res) == BuilderBytes(b) && fresh(res)
//@ assigns none
//@ end

//@ ext (*golang.org/x/crypto/cryptobyte.Builder).Bytes func(b *cryptobyte.Builder) (res []byte, err error)
//@ requires b != nil
//@ ensures (err != nil) == BuilderErr(b)
//@ ensures err == nil ==> string(res) == BuilderBytes(b) && fresh(res)
//@ ensures err != nil ==> res == nil
//@ assigns none
//@ end
