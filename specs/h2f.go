//go:build verif

package vspec

import (
	"crypto"
	"math/big"

	"github.com/cloudflare/circl/expander"
	"github.com/cloudflare/circl/group"
)

var _ = group.HashToField
var _ expander.Expander
var _ crypto.Hash
var _ big.Int

// hash_to_field (RFC 9380 section 5.2) with expand_message_xmd: an uninterpreted function of the hash,
// the domain separation tag, the message, the modulus and the security length L.
//
//@ spec opaque
func H2FXMD(h crypto.Hash, dst string, msg string, p Mathint, l int) Mathint { return 0 }

//@ lemma auto trusted
//@ ensures p > 0 ==> H2FXMD(h, dst, msg, p, l) >= 0 && H2FXMD(h, dst, msg, p, l) < p
func axH2FXMDRange(h crypto.Hash, dst string, msg string, p Mathint, l int) {}

// The XMD expander remembers its hash and tag (immutable object).
//
//@ spec opaque
func ExpHash(e any) crypto.Hash { return 0 }

//@ spec opaque
func ExpDST(e any) string { return "" }

//@ ext github.com/cloudflare/circl/expander.NewExpanderMD func(h crypto.Hash, dst []byte) (e expander.Expander)
//@ ensures e != nil && fresh(e) && ExpHash(e) == h && ExpDST(e) == string(dst)
//@ assigns none
//@ end

// HashToField fills u with count = len(u) field elements; pat-go uses count = 1.
//
//@ ext github.com/cloudflare/circl/group.HashToField func(u []big.Int, b []byte, e expander.Expander, p *big.Int, l uint)
//@ requires len(u) == 1 && e != nil && p != nil && BigVal(p) > 0
//@ ensures BigVal(&u[0]) == H2FXMD(ExpHash(e), ExpDST(e), string(b), BigVal(p), int(l))
//@ assigns ghost(BigVal(&u[0]))
//@ end
