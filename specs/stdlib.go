//go:build verif

package vspec

import (
	"bytes"
	"encoding/binary"
	"errors"
	"fmt"
)

var _ = errors.New
var _ = fmt.Errorf

var _ = bytes.Equal
var _ = binary.BigEndian

//@ ext (encoding/binary.bigEndian).Uint16 func(e binary.ByteOrder, b []byte) (v uint16)
//@ requires len(b) >= 2
//@ ensures v == uint16(b[0])*256+uint16(b[1])
//@ assigns none
//@ pure
//@ end

//@ ext (encoding/binary.bigEndian).Uint32 func(e binary.ByteOrder, b []byte) (v uint32)
//@ requires len(b) >= 4
//@ ensures v == ((uint32(b[0])*256+uint32(b[1]))*256+uint32(b[2]))*256+uint32(b[3])
//@ assigns none
//@ pure
//@ end

//@ ext (encoding/binary.bigEndian).Uint64 func(e binary.ByteOrder, b []byte) (v uint64)
//@ requires len(b) >= 8
//@ ensures v == ((((((uint64(b[0])*256+uint64(b[1]))*256+uint64(b[2]))*256+uint64(b[3]))*256+uint64(b[4]))*256+uint64(b[5]))*256+uint64(b[6]))*256+uint64(b[7])
//@ assigns none
//@ pure
//@ end

//@ ext bytes.Equal func(a []byte, b []byte) (eq bool)
//@ ensures eq == (string(a) == string(b))
//@ assigns none
//@ pure
//@ end

//@ ext fmt.Errorf func(format string, a []any) (err error)
//@ ensures err != nil
//@ assigns none
//@ end

//@ ext errors.New func(text string) (err error)
//@ ensures err != nil
//@ assigns none
//@ end
