//go:build verif

package vspec

import (
	"bytes"
	"crypto/subtle"
	"encoding/binary"
	"errors"
	"fmt"
	"strings"
)

var _ = errors.New
var _ = fmt.Errorf

var _ = bytes.Equal
var _ = subtle.ConstantTimeCompare
var _ = binary.BigEndian

//@ ext (encoding/binary.bigEndian).Uint16 func(e binary.ByteOrder, b []byte) (v uint16)
//@ requires len(b) >= 2
//@ ensures v == uint16(b[0])*256+uint16(b[1])
//@ assigns none
//@ pure
//@ end

//@ ext (encoding/binary.bigEndian).Uint32 func(e binary.ByteOrder, b []byte) (v uint32)
//@ requires len(b) >= 4
//@ ensures v == ((uint32(b[0])*256+uint32(b[1]))*256+uint32(b[2]))*256+uint32(b[3])
//@ assigns none
//@ pure
//@ end

//@ ext (encoding/binary.bigEndian).Uint64 func(e binary.ByteOrder, b []byte) (v uint64)
//@ requires len(b) >= 8
//@ ensures v == ((((((uint64(b[0])*256+uint64(b[1]))*256+uint64(b[2]))*256+uint64(b[3]))*256+uint64(b[4]))*256+uint64(b[5]))*256+uint64(b[6]))*256+uint64(b[7])
//@ assigns none
//@ pure
//@ end

//@ ext bytes.Equal func(a []byte, b []byte) (eq bool)
//@ ensures eq == (string(a) == string(b))
//@ assigns none
//@ pure
//@ end

// Read-only helpers a harmless edit is likely to introduce (without a contract, a callee that is handed a
// reference is a frame obligation of its caller).

//@ ext bytes.Clone func(b []byte) (res []byte)
//@ ensures string(res) == string(b) && (res == nil) == (b == nil)
//@ ensures b != nil ==> fresh(res)
//@ assigns none
//@ end

//@ ext bytes.Compare func(a []byte, b []byte) (r int)
//@ ensures -1 <= r && r <= 1 && (r == 0) == (string(a) == string(b))
//@ assigns none
//@ pure
//@ end

//@ ext bytes.HasPrefix func(s []byte, prefix []byte) (ok bool)
//@ ensures ok == (len(s) >= len(prefix) && string(s[:min(len(prefix), len(s))]) == string(prefix))
//@ assigns none
//@ pure
//@ end

//@ ext bytes.HasSuffix func(s []byte, suffix []byte) (ok bool)
//@ ensures ok == (len(s) >= len(suffix) && string(s[max(len(s)-len(suffix), 0):]) == string(suffix))
//@ assigns none
//@ pure
//@ end

//@ ext crypto/subtle.ConstantTimeCompare func(x []byte, y []byte) (r int)
//@ ensures (r == 1) == (string(x) == string(y)) && (r == 0 || r == 1)
//@ assigns none
//@ pure
//@ end

//@ ext fmt.Errorf func(format string, a []any) (err error)
//@ ensures err != nil
//@ assigns none
//@ end

//@ ext errors.New func(text string) (err error)
//@ ensures err != nil
//@ assigns none
//@ end

// strings.Join / strings.Split over an opaque joining function of the list contents.
//
//@ spec opaque
func JoinOf(elems []string, sep string) string { return strings.Join(elems, sep) }

//@ ext strings.Join func(elems []string, sep string) (res string)
//@ ensures res == JoinOf(elems, sep)
//@ assigns none
//@ end

// Split with a non-empty separator returns at least one element and joins back to the input.
//
//@ ext strings.Split func(s string, sep string) (res []string)
//@ requires len(sep) > 0
//@ ensures len(res) >= 1 && fresh(res) && JoinOf(res, sep) == s
//@ assigns none
//@ end

//@ ext (encoding/binary.bigEndian).PutUint16 func(e binary.ByteOrder, b []byte, v uint16)
//@ requires len(b) >= 2
//@ ensures b[0] == byte(v/256) && b[1] == byte(v%256) && string(b[2:]) == old(string(b[2:]))
//@ assigns b[:]
//@ pure
//@ end

//@ ext (encoding/binary.bigEndian).PutUint32 func(e binary.ByteOrder, b []byte, v uint32)
//@ requires len(b) >= 4
//@ ensures b[0] == byte(v/16777216) && b[1] == byte(v/65536%256) && b[2] == byte(v/256%256) && b[3] == byte(v%256) && string(b[4:]) == old(string(b[4:]))
//@ assigns b[:]
//@ pure
//@ end

//@ ext (encoding/binary.bigEndian).AppendUint16 func(e binary.ByteOrder, b []byte, v uint16) (res []byte)
//@ ensures string(res) == old(string(b)) + U16(v)
//@ ensures fresh(res) || Extends(res, b)
//@ assigns spare(b)
//@ end

//@ ext (encoding/binary.bigEndian).AppendUint32 func(e binary.ByteOrder, b []byte, v uint32) (res []byte)
//@ ensures string(res) == old(string(b)) + B1(byte(v/16777216)) + B1(byte(v/65536%256)) + B1(byte(v/256%256)) + B1(byte(v%256))
//@ ensures fresh(res) || Extends(res, b)
//@ assigns spare(b)
//@ end

// bytes.IndexByte: the first index of c in b, or -1.
//
//@ ext bytes.IndexByte func(b []byte, c byte) (i int)
//@ ensures -1 <= i && i < len(b)
//@ ensures i >= 0 ==> b[i] == c && forall(0, i, func(j int) bool { return b[j] != c })
//@ ensures i == -1 ==> forall(0, len(b), func(j int) bool { return b[j] != c })
//@ assigns none
//@ pure
//@ end

// Formatting helpers that only occur in panic / error messages.
//
//@ ext strconv.Itoa func(i int) (s string)
//@ assigns none
//@ pure
//@ end

//@ ext (error).Error func(e error) (s string)
//@ assigns none
//@ pure
//@ end

//@ ext fmt.Sprintf func(format string, a []any) (s string)
//@ assigns none
//@ pure
//@ end

//@ ext errors.Is func(err error, target error) (ok bool)
//@ ensures err == nil && target != nil ==> !ok
//@ assigns none
//@ pure
//@ end

//@ ext (encoding/binary.bigEndian).PutUint64 func(e binary.ByteOrder, b []byte, v uint64)
//@ requires len(b) >= 8
//@ ensures uint64(b[0])*72057594037927936+uint64(b[1])*281474976710656+uint64(b[2])*1099511627776+uint64(b[3])*4294967296+uint64(b[4])*16777216+uint64(b[5])*65536+uint64(b[6])*256+uint64(b[7]) == v
//@ ensures string(b[8:]) == old(string(b[8:]))
//@ assigns b[:]
//@ pure
//@ end

