//go:build verif

package vspec

import (
	"bytes"
	"encoding/binary"
	"errors"
	"fmt"
	"strings"
)

var _ = errors.New
var _ = fmt.Errorf

var _ = bytes.Equal
var _ = binary.BigEndian

//@ ext (encoding/binary.bigEndian).Uint16 func(e binary.ByteOrder, b []byte) (v uint16)
//@ requires len(b) >= 2
//@ ensures v == uint16(b[0])*256+uint16(b[1])
//@ assigns none
//@ pure
//@ end

//@ ext (encoding/binary.bigEndian).Uint32 func(e binary.ByteOrder, b []byte) (v uint32)
//@ requires len(b) >= 4
//@ ensures v == ((uint32(b[0])*256+uint32(b[1]))*256+uint32(b[2]))*256+uint32(b[3])
//@ assigns none
//@ pure
//@ end

//@ ext (encoding/binary.bigEndian).Uint64 func(e binary.ByteOrder, b []byte) (v uint64)
//@ requires len(b) >= 8
//@ ensures v == ((((((uint64(b[0])*256+uint64(b[1]))*256+uint64(b[2]))*256+uint64(b[3]))*256+uint64(b[4]))*256+uint64(b[5]))*256+uint64(b[6]))*256+uint64(b[7])
//@ assigns none
//@ pure
//@ end

//@ ext bytes.Equal func(a []byte, b []byte) (eq bool)
//@ ensures eq == (string(a) == string(b))
//@ assigns none
//@ pure
//@ end

//@ ext fmt.Errorf func(format string, a []any) (err error)
//@ ensures err != nil
//@ assigns none
//@ end

//@ ext errors.New func(text string) (err error)
//@ ensures err != nil
//@ assigns none
//@ end

// strings.Join / strings.Split over an opaque joining function of the list contents.
//
//@ spec opaque
func JoinOf(elems []string, sep string) string { return strings.Join(elems, sep) }

//@ ext strings.Join func(elems []string, sep string) (res string)
//@ ensures res == JoinOf(elems, sep)
//@ assigns none
//@ end

// Split with a non-empty separator returns at least one element and joins back to the input.
//
//@ ext strings.Split func(s string, sep string) (res []string)
//@ requires len(sep) > 0
//@ ensures len(res) >= 1 && fresh(res) && JoinOf(res, sep) == s
//@ assigns none
//@ end
