//go:build verif

package vspec

import (
	"crypto"
	"crypto/rand"
	"crypto/rsa"
	"crypto/sha256"
	"crypto/sha512"
	"hash"
	"io"

	"github.com/cloudflare/circl/blindsign/blindrsa"
	"github.com/cloudflare/circl/group"
	"github.com/cloudflare/circl/oprf"
	"github.com/cloudflare/circl/zk/dleq"
)

var _ = sha256.Sum256
var _ = sha512.Sum512
var _ hash.Hash
var _ io.Reader
var _ crypto.Hash
var _ rsa.PublicKey
var _ blindrsa.Verifier
var _ group.Group
var _ oprf.Suite
var _ dleq.Proof

// ===========================================================================
// Hash functions: uninterpreted functions of the input bytes. No collision-freeness or any other
// hardness statement is assumed.

//@ spec opaque
func SHA256(x string) string { s := sha256.Sum256([]byte(x)); return string(s[:]) }

//@ spec opaque
func SHA384(x string) string { s := sha512.Sum384([]byte(x)); return string(s[:]) }

//@ spec opaque
func SHA512(x string) string { s := sha512.Sum512([]byte(x)); return string(s[:]) }

//@ lemma auto trusted
//@ ensures len(SHA256(x)) == 32 && len(SHA384(x)) == 48 && len(SHA512(x)) == 64
func axHashLen(x string) {}

//@ ext crypto/sha256.Sum256 func(data []byte) (res [32]byte)
//@ ensures Arr32(res) == SHA256(string(data))
//@ assigns none
//@ pure
//@ end

//@ ext crypto/sha512.Sum512 func(data []byte) (res [64]byte)
//@ ensures Arr64(res) == SHA512(string(data))
//@ assigns none
//@ pure
//@ end

//@ ext crypto/sha512.Sum384 func(data []byte) (res [48]byte)
//@ ensures Arr48(res) == SHA384(string(data))
//@ assigns none
//@ pure
//@ end

// hash.Hash objects: algorithm (output size in bits) and the bytes written so far are ghost state.

//@ spec ghost
func HashAlg(h any) int { return 0 }

//@ spec ghost
func HashInput(h any) string { return "" }

//@ spec
func HashOf(alg int, x string) string {
	switch alg {
	case 256:
		return SHA256(x)
	case 384:
		return SHA384(x)
	}
	return SHA512(x)
}

//@ ext crypto/sha512.New384 func() (h hash.Hash)
//@ ensures h != nil && fresh(h) && HashAlg(h) == 384 && HashInput(h) == ""
//@ assigns none
//@ end

//@ ext crypto/sha512.New func() (h hash.Hash)
//@ ensures h != nil && fresh(h) && HashAlg(h) == 512 && HashInput(h) == ""
//@ assigns none
//@ end

//@ ext crypto/sha256.New func() (h hash.Hash)
//@ ensures h != nil && fresh(h) && HashAlg(h) == 256 && HashInput(h) == ""
//@ assigns none
//@ end

//@ ext (hash.Hash).Reset func(h hash.Hash)
//@ requires h != nil
//@ ensures HashInput(h) == ""
//@ assigns ghost(HashInput(h))
//@ end

//@ ext (hash.Hash).Size func(h hash.Hash) (n int)
//@ requires h != nil
//@ ensures n == len(HashOf(HashAlg(h), ""))
//@ assigns none
//@ pure
//@ end

//@ ext (io.Writer).Write func(w io.Writer, p []byte) (n int, err error)
//@ requires w != nil
//@ ensures n == len(p) && err == nil && HashInput(w) == old(HashInput(w))+string(p)
//@ assigns ghost(HashInput(w))
//@ pure
//@ end

//@ ext (hash.Hash).Sum func(h hash.Hash, b []byte) (res []byte)
//@ requires h != nil
//@ ensures len(res) == len(b)+len(HashOf(HashAlg(h), HashInput(h)))
//@ ensures string(res[:len(b)]) == old(string(b)) && string(res[len(b):]) == HashOf(HashAlg(h), HashInput(h))
//@ ensures fresh(res) || Extends(res, b)
//@ assigns spare(b)
//@ end

//@ ext (crypto.Hash).Size func(h crypto.Hash) (n int)
//@ requires h == crypto.SHA256 || h == crypto.SHA384 || h == crypto.SHA512
//@ ensures (h == crypto.SHA256 ==> n == 32) && (h == crypto.SHA384 ==> n == 48) && (h == crypto.SHA512 ==> n == 64)
//@ assigns none
//@ pure
//@ end

// ===========================================================================
// circl group elements and scalars: the canonical (compressed) encoding is ghost state of the
// object; kind identifies (group, element|scalar).

//@ spec ghost
func BinEnc(x any) string { return "" }

//@ spec ghost
func BinGroup(x any) group.Group { return nil }

//@ spec ghost
func BinIsScalar(x any) bool { return false }

// GroupNe / GroupNs: sizes of the compressed element / scalar encodings.
//
//@ spec opaque
func GroupNe(g group.Group) int { return int(g.Params().CompressedElementLength) }

//@ spec opaque
func GroupNs(g group.Group) int { return int(g.Params().ScalarLength) }

// ElemValid: enc is an accepted element encoding of g.
//
//@ spec opaque
func ElemValid(g group.Group, enc string) bool { return g.NewElement().UnmarshalBinary([]byte(enc)) == nil }

//@ spec opaque
func ScalarValid(g group.Group, enc string) bool { return g.NewScalar().UnmarshalBinary([]byte(enc)) == nil }

//@ lemma auto trusted
//@ ensures GroupNe(group.P384) == 49 && GroupNs(group.P384) == 48 && GroupNe(group.Ristretto255) == 32 && GroupNs(group.Ristretto255) == 32
func axGroupSizes() {}

//@ ext (github.com/cloudflare/circl/group.Group).NewElement func(g group.Group) (e group.Element)
//@ requires g != nil
//@ ensures e != nil && fresh(e) && BinGroup(e) == g && !BinIsScalar(e)
//@ assigns none
//@ end

//@ ext (github.com/cloudflare/circl/group.Group).NewScalar func(g group.Group) (s group.Scalar)
//@ requires g != nil
//@ ensures s != nil && fresh(s) && BinGroup(s) == g && BinIsScalar(s)
//@ assigns none
//@ end

//@ ext (github.com/cloudflare/circl/group.Group).Params func(g group.Group) (p *group.Params)
//@ requires g != nil
//@ ensures p != nil && int(p.CompressedElementLength) == GroupNe(g) && int(p.ScalarLength) == GroupNs(g)
//@ assigns none
//@ end

// UnmarshalBinary of elements and scalars. Compressed encodings are stored as they are.
// (circl's P-384 scalar decoder slices with a negative index for more than 48 bytes: a precondition.)
//
//@ ext (encoding.BinaryUnmarshaler).UnmarshalBinary func(x any, data []byte) (err error)
//@ requires x != nil
//@ requires BinIsScalar(x) ==> len(data) <= GroupNs(BinGroup(x))
//@ ensures !BinIsScalar(x) ==> (err == nil) == ElemValid(BinGroup(x), string(data))
//@ ensures BinIsScalar(x) ==> (err == nil) == ScalarValid(BinGroup(x), string(data))
//@ ensures err == nil && !BinIsScalar(x) && len(data) == GroupNe(BinGroup(x)) ==> BinEnc(x) == string(data)
//@ ensures err == nil && BinIsScalar(x) ==> BinEnc(x) == string(data)
//@ ensures err == nil && !BinIsScalar(x) ==> len(BinEnc(x)) >= 1 && len(BinEnc(x)) <= GroupNe(BinGroup(x)) && ElemValid(BinGroup(x), BinEnc(x))
//@ ensures BinGroup(x) == old(BinGroup(x)) && BinIsScalar(x) == old(BinIsScalar(x))
//@ assigns ghost(BinEnc(x))
//@ end

//@ ext (github.com/cloudflare/circl/group.Element).MarshalBinaryCompress func(e group.Element) (res []byte, err error)
//@ requires e != nil
//@ ensures err == nil && string(res) == BinEnc(e) && fresh(res)
//@ assigns none
//@ end

// ===========================================================================
// VOPRF (RFC 9497) over encodings. sk / pk are the scalar / element encodings of the key.

//@ spec opaque
func OPRFPub(s oprf.Suite, sk string) string { return "" }

//@ spec opaque
func OPRFBlindE(s oprf.Suite, input, blind string) string { return "" }

//@ spec opaque
func OPRFEvalE(s oprf.Suite, sk, blinded string) string { return "" }

//@ spec opaque
func OPRFFinal(s oprf.Suite, input, blind, evaluated string) string { return "" }

//@ spec opaque
func OPRFFull(s oprf.Suite, sk, input string) string { return "" }

// DLEQOK(s, pk, blinded, evaluated, proof): the proof convinces a verifier holding pk that
// evaluated = sk * blinded (single element).
//
//@ spec opaque
func DLEQOK(s oprf.Suite, pk, blinded, evaluated, proof string) bool { return false }

// DLEQProof: the proof an honest server produces (with its randomness rho).
//
//@ spec opaque
func DLEQProof(s oprf.Suite, sk, blinded, rho string) string { return "" }

//@ spec opaque
func SuiteGroup(s oprf.Suite) group.Group { return s.Group() }

//@ spec opaque
func SuiteNo(s oprf.Suite) int { return s.Hash().Size() }

//@ lemma auto trusted
//@ ensures oprf.SuiteP384 != nil && oprf.SuiteRistretto255 != nil && group.P384 != nil && group.Ristretto255 != nil && oprf.SuiteP384 != oprf.SuiteRistretto255
//@ ensures SuiteGroup(oprf.SuiteP384) == group.P384 && SuiteGroup(oprf.SuiteRistretto255) == group.Ristretto255 && SuiteNo(oprf.SuiteP384) == 48 && SuiteNo(oprf.SuiteRistretto255) == 64
func axSuites() {}

// Algebraic facts assumed about the VOPRF (RFC 9497): correctness of blind/evaluate/finalize, sizes,
// completeness of honest proofs and (idealised) soundness of verified proofs.
//
//@ lemma auto trusted
//@ ensures OPRFFinal(s, input, blind, OPRFEvalE(s, sk, OPRFBlindE(s, input, blind))) == OPRFFull(s, sk, input)
func axOPRFCorrect(s oprf.Suite, sk, input, blind string) {}

//@ lemma auto trusted
//@ ensures len(OPRFFull(s, sk, input)) == SuiteNo(s)
func axOPRFFullLen(s oprf.Suite, sk, input string) {}

//@ lemma auto trusted
//@ ensures len(OPRFFinal(s, input, blind, ev)) == SuiteNo(s)
func axOPRFFinalLen(s oprf.Suite, input, blind, ev string) {}

//@ lemma auto trusted
//@ ensures len(OPRFBlindE(s, input, blind)) == GroupNe(SuiteGroup(s)) && ElemValid(SuiteGroup(s), OPRFBlindE(s, input, blind))
func axOPRFBlindLen(s oprf.Suite, input, blind string) {}

//@ lemma auto trusted
//@ ensures ElemValid(SuiteGroup(s), blinded) ==> len(OPRFEvalE(s, sk, blinded)) >= 1 && len(OPRFEvalE(s, sk, blinded)) <= GroupNe(SuiteGroup(s)) && ElemValid(SuiteGroup(s), OPRFEvalE(s, sk, blinded))
//@ ensures ElemValid(SuiteGroup(s), blinded) && len(blinded) == GroupNe(SuiteGroup(s)) ==> len(OPRFEvalE(s, sk, blinded)) == GroupNe(SuiteGroup(s))
func axOPRFEvalLen(s oprf.Suite, sk, blinded string) {}

//@ lemma auto trusted
//@ ensures len(DLEQProof(s, sk, blinded, rho)) == 2*GroupNs(SuiteGroup(s))
//@ ensures DLEQOK(s, OPRFPub(s, sk), blinded, OPRFEvalE(s, sk, blinded), DLEQProof(s, sk, blinded, rho))
func axDLEQComplete(s oprf.Suite, sk, blinded, rho string) {}

//@ lemma auto trusted
//@ ensures DLEQOK(s, OPRFPub(s, sk), blinded, evaluated, proof) ==> evaluated == OPRFEvalE(s, sk, blinded)
func axDLEQSound(s oprf.Suite, sk, blinded, evaluated, proof string) {}

// Keys are immutable objects: their value is a function of the object.

//@ spec opaque
func SKVal(k *oprf.PrivateKey) string { b, _ := k.MarshalBinary(); return string(b) }

//@ spec opaque
func SKSuite(k *oprf.PrivateKey) oprf.Suite { return nil }

//@ spec opaque
func PKVal(k *oprf.PublicKey) string { b, _ := k.MarshalBinary(); return string(b) }

//@ spec opaque
func PKSuite(k *oprf.PublicKey) oprf.Suite { return nil }

// PubCached: the lazily computed public key has been stored inside the private key object (C17).
//
//@ spec ghost
func PubCached(k *oprf.PrivateKey) bool { return false }

//@ ext (*github.com/cloudflare/circl/oprf.PrivateKey).Public func(k *oprf.PrivateKey) (pk *oprf.PublicKey)
//@ requires k != nil
//@ ensures pk != nil && PKVal(pk) == OPRFPub(SKSuite(k), SKVal(k)) && PKSuite(pk) == SKSuite(k) && PubCached(k)
//@ assigns ghost(PubCached(k)) when !PubCached(k)
//@ end

//@ ext (*github.com/cloudflare/circl/oprf.PublicKey).MarshalBinary func(k *oprf.PublicKey) (res []byte, err error)
//@ requires k != nil
//@ ensures err == nil && string(res) == PKVal(k) && fresh(res)
//@ assigns none
//@ end

// Clients and servers are immutable values.

//@ spec opaque
func VCSuite(c oprf.VerifiableClient) oprf.Suite { return nil }

//@ spec opaque
func VCKey(c oprf.VerifiableClient) *oprf.PublicKey { return nil }

//@ ext github.com/cloudflare/circl/oprf.NewVerifiableClient func(s oprf.Suite, server *oprf.PublicKey) (c oprf.VerifiableClient)
//@ requires s != nil
//@ ensures VCSuite(c) == s && VCKey(c) == server
//@ assigns none
//@ pure
//@ end

//@ spec opaque
func VSSuite(c oprf.VerifiableServer) oprf.Suite { return nil }

//@ spec opaque
func VSKey(c oprf.VerifiableServer) *oprf.PrivateKey { return nil }

//@ ext github.com/cloudflare/circl/oprf.NewVerifiableServer func(s oprf.Suite, key *oprf.PrivateKey) (c oprf.VerifiableServer)
//@ requires s != nil
//@ ensures VSSuite(c) == s && VSKey(c) == key
//@ assigns none
//@ pure
//@ end

// FinalizeData is immutable: inputs and blinds are functions of the object.

//@ spec opaque
func FDCount(f *oprf.FinalizeData) int { return 0 }

//@ spec opaque
func FDInput(f *oprf.FinalizeData, i int) string { return "" }

//@ spec opaque
func FDBlind(f *oprf.FinalizeData, i int) string { return "" }

//@ spec opaque
func FDSuite(f *oprf.FinalizeData) oprf.Suite { return nil }

// BlindFails: the (negligible-probability) event that an input hashes to the identity element.
//
//@ spec opaque
func BlindFails(s oprf.Suite, input string) bool { return false }

//@ ext (github.com/cloudflare/circl/oprf.VerifiableClient).Blind func(c oprf.VerifiableClient, inputs [][]byte) (f *oprf.FinalizeData, r *oprf.EvaluationRequest, err error)
//@ ensures len(inputs) == 0 ==> err != nil
//@ ensures err == nil ==> f != nil && r != nil && fresh(f) && fresh(r) && FDCount(f) == len(inputs) && FDSuite(f) == VCSuite(c) && len(r.Elements) == len(inputs) && fresh(r.Elements)
//@ ensures err == nil ==> forall(0, len(inputs), func(i int) bool { return FDInput(f, i) == string(inputs[i]) && r.Elements[i] != nil && fresh(r.Elements[i]) && BinGroup(r.Elements[i]) == SuiteGroup(VCSuite(c)) && !BinIsScalar(r.Elements[i]) && BinEnc(r.Elements[i]) == OPRFBlindE(VCSuite(c), string(inputs[i]), FDBlind(f, i)) })
//@ ensures len(inputs) > 0 && forall(0, len(inputs), func(i int) bool { return !BlindFails(VCSuite(c), string(inputs[i])) }) ==> err == nil
//@ assigns none
//@ end

//@ ext (github.com/cloudflare/circl/oprf.VerifiableClient).DeterministicBlind func(c oprf.VerifiableClient, inputs [][]byte, blinds []oprf.Blind) (f *oprf.FinalizeData, r *oprf.EvaluationRequest, err error)
//@ requires forall(0, len(blinds), func(i int) bool { return blinds[i] != nil })
//@ ensures (len(inputs) == 0 || len(inputs) != len(blinds)) ==> err != nil
//@ ensures err == nil ==> f != nil && r != nil && fresh(f) && fresh(r) && FDCount(f) == len(inputs) && FDSuite(f) == VCSuite(c) && len(r.Elements) == len(inputs) && fresh(r.Elements)
//@ ensures err == nil ==> forall(0, len(inputs), func(i int) bool { return FDInput(f, i) == string(inputs[i]) && FDBlind(f, i) == BinEnc(blinds[i]) && r.Elements[i] != nil && fresh(r.Elements[i]) && BinGroup(r.Elements[i]) == SuiteGroup(VCSuite(c)) && !BinIsScalar(r.Elements[i]) && BinEnc(r.Elements[i]) == OPRFBlindE(VCSuite(c), string(inputs[i]), FDBlind(f, i)) })
//@ ensures len(inputs) > 0 && len(inputs) == len(blinds) && forall(0, len(inputs), func(i int) bool { return !BlindFails(VCSuite(c), string(inputs[i])) }) ==> err == nil
//@ assigns none
//@ end

// Proof objects.

//@ spec ghost
func ProofEnc(p *dleq.Proof) string { return "" }

//@ spec opaque
func ProofValidEnc(g group.Group, enc string) bool { return false }

//@ lemma auto trusted
//@ ensures len(enc) == 2*GroupNs(g) ==> true
//@ ensures ProofValidEnc(g, enc) ==> len(enc) >= 2*GroupNs(g)
func axProofEnc(g group.Group, enc string) {}

//@ lemma auto trusted
//@ ensures ProofValidEnc(SuiteGroup(s), DLEQProof(s, sk, blinded, rho))
func axProofEncValid(s oprf.Suite, sk, blinded, rho string) {}

//@ ext (*github.com/cloudflare/circl/zk/dleq.Proof).MarshalBinary func(p *dleq.Proof) (res []byte, err error)
//@ requires p != nil
//@ ensures err == nil && string(res) == ProofEnc(p) && fresh(res)
//@ assigns none
//@ end

// UnmarshalBinary needs at least 2*Ns bytes and ignores trailing bytes.
//
//@ ext (*github.com/cloudflare/circl/zk/dleq.Proof).UnmarshalBinary func(p *dleq.Proof, g group.Group, data []byte) (err error)
//@ requires p != nil && g != nil
//@ ensures (err == nil) == ProofValidEnc(g, string(data))
//@ ensures err == nil && len(data) == 2*GroupNs(g) ==> ProofEnc(p) == string(data)
//@ assigns ghost(ProofEnc(p))
//@ end

// Server side. EvalRho: the server's proof randomness for this call (a function of the result).
//
//@ spec opaque
func EvalRho(ev *oprf.Evaluation) string { return "" }

//@ ext (github.com/cloudflare/circl/oprf.VerifiableServer).Evaluate func(srv oprf.VerifiableServer, req *oprf.EvaluationRequest) (ev *oprf.Evaluation, err error)
//@ requires req != nil && VSKey(srv) != nil
//@ requires forall(0, len(req.Elements), func(i int) bool { return req.Elements[i] != nil })
//@ ensures err == nil ==> ev != nil && fresh(ev) && len(ev.Elements) == len(req.Elements) && fresh(ev.Elements) && ev.Proof != nil && fresh(ev.Proof)
//@ ensures err == nil ==> forall(0, len(req.Elements), func(i int) bool { return ev.Elements[i] != nil && fresh(ev.Elements[i]) && BinGroup(ev.Elements[i]) == SuiteGroup(VSSuite(srv)) && !BinIsScalar(ev.Elements[i]) && BinEnc(ev.Elements[i]) == OPRFEvalE(VSSuite(srv), SKVal(VSKey(srv)), BinEnc(req.Elements[i])) })
//@ ensures err == nil && len(req.Elements) == 1 ==> ProofEnc(ev.Proof) == DLEQProof(VSSuite(srv), SKVal(VSKey(srv)), BinEnc(req.Elements[0]), EvalRho(ev))
//@ ensures err == nil && len(req.Elements) != 1 ==> len(ProofEnc(ev.Proof)) == 2*GroupNs(SuiteGroup(VSSuite(srv)))
//@ ensures PubCached(VSKey(srv))
//@ ensures err != nil ==> EntropyFailed()
//@ assigns ghost(PubCached(VSKey(srv))) when !PubCached(VSKey(srv))
//@ end

//@ ext (github.com/cloudflare/circl/oprf.VerifiableServer).FullEvaluate func(srv oprf.VerifiableServer, input []byte) (output []byte, err error)
//@ requires VSKey(srv) != nil
//@ ensures (err != nil) ==> BlindFails(VSSuite(srv), string(input))
//@ ensures err == nil ==> string(output) == OPRFFull(VSSuite(srv), SKVal(VSKey(srv)), string(input)) && fresh(output)
//@ assigns none
//@ end

// Finalize: validates the sizes, verifies the (batch) proof against the pinned key, unblinds.
// The statement about the proof is made for one-element batches (token type 0x0001); for larger
// batches only sizes and the form of the outputs are specified.
//
//@ ext (github.com/cloudflare/circl/oprf.VerifiableClient).Finalize func(c oprf.VerifiableClient, f *oprf.FinalizeData, e *oprf.Evaluation) (outputs [][]byte, err error)
//@ requires f != nil && e != nil && e.Proof != nil && VCKey(c) != nil
//@ requires forall(0, len(e.Elements), func(i int) bool { return e.Elements[i] != nil })
//@ ensures err == nil ==> len(e.Elements) == FDCount(f) && len(outputs) == FDCount(f) && fresh(outputs)
//@ ensures err == nil ==> forall(0, len(outputs), func(i int) bool { return fresh(outputs[i]) && string(outputs[i]) == OPRFFinal(VCSuite(c), FDInput(f, i), FDBlind(f, i), BinEnc(e.Elements[i])) })
//@ ensures err == nil && FDCount(f) == 1 ==> DLEQOK(VCSuite(c), PKVal(VCKey(c)), OPRFBlindE(VCSuite(c), FDInput(f, 0), FDBlind(f, 0)), BinEnc(e.Elements[0]), ProofEnc(e.Proof))
//@ ensures FDCount(f) == 1 && len(e.Elements) == 1 && DLEQOK(VCSuite(c), PKVal(VCKey(c)), OPRFBlindE(VCSuite(c), FDInput(f, 0), FDBlind(f, 0)), BinEnc(e.Elements[0]), ProofEnc(e.Proof)) ==> err == nil
//@ assigns none
//@ end

// EntropyFailed: the event that the system entropy source (crypto/rand) returns an error.
//
//@ spec opaque
func EntropyFailed() bool { return false }

// ===========================================================================
// Blind RSA (RFC 9474, circl/blindsign/blindrsa) and RSASSA-PSS verification. Keys are immutable
// objects. No unforgeability or other hardness statement is assumed.

// RSAModLen: size in bytes of the modulus of the key.
//
//@ spec opaque
func RSAModLen(pk *rsa.PublicKey) int { return (pk.N.BitLen() + 7) / 8 }

//@ lemma auto trusted
//@ ensures RSAModLen(pk) >= 0
func axRSAModLen(pk *rsa.PublicKey) {}

// BRSABlinded(pk, msg, r, salt): the blinded message; BRSASign(sk, blinded): the blind signature;
// BRSAFinal(pk, r, blindSig): the unblinded signature; PSSVerify(pk, digest, sig): RSASSA-PSS-SHA384
// (salt length 48) verification of sig over the SHA-384 digest.
//
//@ spec opaque
func BRSABlinded(pk *rsa.PublicKey, msg, r, salt string) string { return "" }

//@ spec opaque
func BRSASign(sk *rsa.PrivateKey, blinded string) string { return "" }

//@ spec opaque
func BRSAFinal(pk *rsa.PublicKey, r, blindSig string) string { return "" }

//@ spec opaque
func PSSVerify(pk *rsa.PublicKey, digest, sig string) bool { return false }

// PSSSign(sk, msg, salt): the (deterministic given the salt) RSASSA-PSS signature of msg.
//
//@ spec opaque
func PSSSign(sk *rsa.PrivateKey, msg, salt string) string { return "" }

// BlindOK: r is a usable blinding factor for pk (0 < r < N, invertible) and msg/salt encode.
//
//@ spec opaque
func BlindOK(pk *rsa.PublicKey, r string) bool { return false }

//@ spec
func RSAPub(sk *rsa.PrivateKey) *rsa.PublicKey { return &sk.PublicKey }

// Assumed facts: sizes; correctness of blind signing (the blind cancels and the result is the PSS
// signature of the message under the salt, which verifies).
//
//@ lemma auto trusted
//@ ensures len(BRSABlinded(pk, msg, r, salt)) == RSAModLen(pk)
func axBRSABlindedLen(pk *rsa.PublicKey, msg, r, salt string) {}

//@ lemma auto trusted
//@ ensures len(blinded) == RSAModLen(RSAPub(sk)) ==> len(BRSASign(sk, blinded)) == RSAModLen(RSAPub(sk))
func axBRSASignLen(sk *rsa.PrivateKey, blinded string) {}

//@ lemma auto trusted
//@ ensures len(bs) == RSAModLen(pk) ==> len(BRSAFinal(pk, r, bs)) == RSAModLen(pk)
func axBRSAFinalLen(pk *rsa.PublicKey, r, bs string) {}

//@ lemma auto trusted
//@ ensures BlindOK(RSAPub(sk), r) ==> BRSAFinal(RSAPub(sk), r, BRSASign(sk, BRSABlinded(RSAPub(sk), msg, r, salt))) == PSSSign(sk, msg, salt)
func axBRSACorrect(sk *rsa.PrivateKey, msg, r, salt string) {}

//@ lemma auto trusted
//@ ensures PSSVerify(RSAPub(sk), SHA384(msg), PSSSign(sk, msg, salt)) && len(PSSSign(sk, msg, salt)) == RSAModLen(RSAPub(sk))
func axPSSSignVerifies(sk *rsa.PrivateKey, msg, salt string) {}

// Verifier (immutable value behind an interface).

//@ spec opaque
func BVKey(v blindrsa.Verifier) *rsa.PublicKey { return nil }

//@ ext github.com/cloudflare/circl/blindsign/blindrsa.NewVerifier func(pk *rsa.PublicKey, h crypto.Hash) (v blindrsa.Verifier)
//@ ensures v != nil && BVKey(v) == pk
//@ assigns none
//@ end

// VerifierState (immutable value).

//@ spec opaque
func VStKey(s blindrsa.VerifierState) *rsa.PublicKey { return nil }

//@ spec opaque
func VStMsg(s blindrsa.VerifierState) string { return "" }

//@ spec opaque
func VStR(s blindrsa.VerifierState) string { return "" }

//@ spec opaque
func VStSalt(s blindrsa.VerifierState) string { return "" }

// Blind draws the salt (hash size) and the blinding factor from the reader.
//
//@ ext (github.com/cloudflare/circl/blindsign/blindrsa.Verifier).Blind func(v blindrsa.Verifier, random io.Reader, message []byte) (blinded []byte, st blindrsa.VerifierState, err error)
//@ requires v != nil && BVKey(v) != nil
//@ ensures err == nil ==> string(blinded) == BRSABlinded(BVKey(v), string(message), VStR(st), VStSalt(st)) && fresh(blinded)
//@ ensures err == nil ==> VStKey(st) == BVKey(v) && VStMsg(st) == string(message) && BlindOK(BVKey(v), VStR(st))
//@ ensures err != nil ==> EntropyFailed() || BRSAEncodeFails(BVKey(v), string(message))
//@ assigns none
//@ end

// BRSAEncodeFails: EMSA-PSS encoding of the message is impossible for this key size (modulus too small).
//
//@ spec opaque
func BRSAEncodeFails(pk *rsa.PublicKey, msg string) bool { return false }

//@ ext (github.com/cloudflare/circl/blindsign/blindrsa.Verifier).FixedBlind func(v blindrsa.Verifier, message []byte, blind []byte, salt []byte) (blinded []byte, st blindrsa.VerifierState, err error)
//@ requires v != nil && BVKey(v) != nil
//@ ensures err == nil ==> string(blinded) == BRSABlinded(BVKey(v), string(message), string(blind), string(salt)) && fresh(blinded)
//@ ensures err == nil ==> VStKey(st) == BVKey(v) && VStMsg(st) == string(message) && VStR(st) == string(blind) && VStSalt(st) == string(salt) && BlindOK(BVKey(v), string(blind))
//@ ensures err != nil ==> !BlindOK(BVKey(v), string(blind)) || BRSAEncodeFails(BVKey(v), string(message))
//@ assigns none
//@ end

// Finalize checks the size, unblinds and VERIFIES the signature before returning it.
//
//@ ext (github.com/cloudflare/circl/blindsign/blindrsa.VerifierState).Finalize func(st blindrsa.VerifierState, data []byte) (sig []byte, err error)
//@ requires VStKey(st) != nil
//@ ensures (err == nil) == (len(data) == RSAModLen(VStKey(st)) && PSSVerify(VStKey(st), SHA384(VStMsg(st)), BRSAFinal(VStKey(st), VStR(st), string(data))))
//@ ensures err == nil ==> string(sig) == BRSAFinal(VStKey(st), VStR(st), string(data)) && fresh(sig)
//@ assigns none
//@ end

//@ spec opaque
func SignerKey(s blindrsa.Signer) *rsa.PrivateKey { return nil }

//@ ext github.com/cloudflare/circl/blindsign/blindrsa.NewSigner func(sk *rsa.PrivateKey) (s blindrsa.Signer)
//@ ensures SignerKey(s) == sk
//@ assigns none
//@ pure
//@ end

// BlindSign: the length must equal the modulus size and the value must not exceed the modulus.
//
//@ spec opaque
func BRSAInRange(sk *rsa.PrivateKey, data string) bool { return false }

//@ lemma auto trusted
//@ ensures BRSAInRange(sk, BRSABlinded(RSAPub(sk), msg, r, salt))
func axBlindedInRange(sk *rsa.PrivateKey, msg, r, salt string) {}

//@ ext (github.com/cloudflare/circl/blindsign/blindrsa.Signer).BlindSign func(s blindrsa.Signer, data []byte) (sig []byte, err error)
//@ requires SignerKey(s) != nil
//@ ensures err == nil ==> len(data) == RSAModLen(RSAPub(SignerKey(s))) && string(sig) == BRSASign(SignerKey(s), string(data)) && fresh(sig)
//@ ensures len(data) == RSAModLen(RSAPub(SignerKey(s))) && BRSAInRange(SignerKey(s), string(data)) && !EntropyFailed() ==> err == nil
//@ ensures err != nil ==> sig == nil
//@ assigns none
//@ end

//@ ext crypto/rsa.VerifyPSS func(pub *rsa.PublicKey, h crypto.Hash, digest []byte, sig []byte, opts *rsa.PSSOptions) (err error)
//@ requires pub != nil
//@ ensures h == crypto.SHA384 && opts != nil && opts.SaltLength == 48 ==> (err == nil) == PSSVerify(pub, string(digest), string(sig))
//@ assigns none
//@ end

// rsa.VerifyPSS rejects signatures whose length differs from the modulus size.
//
//@ lemma auto trusted
//@ ensures PSSVerify(pk, digest, sig) ==> len(sig) == RSAModLen(pk)
func axPSSVerifyLen(pk *rsa.PublicKey, digest, sig string) {}

//@ ext (github.com/cloudflare/circl/oprf.Suite).Group func(s oprf.Suite) (g group.Group)
//@ requires s != nil
//@ ensures g == SuiteGroup(s) && g != nil
//@ assigns none
//@ pure
//@ end

//@ lemma auto trusted
//@ ensures s != nil ==> SuiteGroup(s) != nil
func axSuiteGroupNonNil(s oprf.Suite) {}

// AES-CTR stream used as a deterministic bit generator by ecdsa.Sign.
//
//@ ext crypto/aes.NewCipher func(key []byte) (b cipher.Block, err error)
//@ ensures (err == nil) == (len(key) == 16 || len(key) == 24 || len(key) == 32)
//@ ensures err == nil ==> b != nil
//@ assigns none
//@ end

// NewCTR panics unless the IV has the block size (16): a precondition.
//
//@ ext crypto/cipher.NewCTR func(block cipher.Block, iv []byte) (s cipher.Stream)
//@ requires block != nil && len(iv) == 16
//@ ensures s != nil
//@ assigns none
//@ end

// The system entropy source is a non-nil reader (set by crypto/rand's initialiser).
//
//@ lemma auto trusted
//@ ensures rand.Reader != nil
func axRandReader() {}

var _ = rand.Reader
