//go:build verif

package vspec

import (
	"crypto/cipher"

	hpke "github.com/cisco/go-hpke"
)

// ===========================================================================
// HPKE (RFC 9180) as used by the rate-limited token type, over an abstract model.
// Assumed contracts (read from github.com/cisco/go-hpke@dd22b38cf960 hpke.go / crypto.go): schemes are
// immutable objects identified by their code points; a receiver context is determined by the recipient
// key, the encapsulated key and the info string; Open succeeds exactly on the ciphertexts HPKEOpenOK
// describes (authenticity itself is a hardness statement and is not an axiom: HPKEOpenOK is uninterpreted).

//@ spec opaque
func KEMIdOf(k hpke.KEMScheme) hpke.KEMID { return 0 }

//@ spec opaque
func KDFIdOf(k hpke.KDFScheme) hpke.KDFID { return 0 }

//@ spec opaque
func AEADIdOf(k hpke.AEADScheme) hpke.AEADID { return 0 }

// Sizes per code point (RFC 9180 section 7).
//
//@ spec opaque
func KEMNpk(id hpke.KEMID) int { return 0 }

//@ spec opaque
func KEMNsk(id hpke.KEMID) int { return 0 }

//@ spec opaque
func AEADNk(id hpke.AEADID) int { return 0 }

//@ spec opaque
func AEADNn(id hpke.AEADID) int { return 0 }

//@ lemma auto trusted
//@ ensures KEMNpk(k) >= 1 && KEMNpk(k) <= 1024 && KEMNsk(k) >= 1 && KEMNsk(k) <= 1024 && KEMNpk(hpke.DHKEM_X25519) == 32 && KEMNsk(hpke.DHKEM_X25519) == 32
func axKEMSizes(k hpke.KEMID) {}

//@ lemma auto trusted
//@ ensures AEADNk(a) >= 0 && AEADNk(a) <= 64 && AEADNn(a) >= 0 && AEADNn(a) <= 64 && AEADNk(hpke.AEAD_AESGCM128) == 16 && AEADNn(hpke.AEAD_AESGCM128) == 12
func axAEADSizes(a hpke.AEADID) {}

//@ ext (github.com/cisco/go-hpke.KEMScheme).ID func(k hpke.KEMScheme) (id hpke.KEMID)
//@ ensures id == KEMIdOf(k)
//@ assigns none
//@ pure
//@ end

//@ ext (github.com/cisco/go-hpke.KDFScheme).ID func(k hpke.KDFScheme) (id hpke.KDFID)
//@ ensures id == KDFIdOf(k)
//@ assigns none
//@ pure
//@ end

//@ ext (github.com/cisco/go-hpke.AEADScheme).ID func(k hpke.AEADScheme) (id hpke.AEADID)
//@ ensures id == AEADIdOf(k)
//@ assigns none
//@ pure
//@ end

//@ ext (github.com/cisco/go-hpke.KEMScheme).PublicKeySize func(k hpke.KEMScheme) (n int)
//@ ensures n == KEMNpk(KEMIdOf(k))
//@ assigns none
//@ pure
//@ end

//@ ext (github.com/cisco/go-hpke.KEMScheme).PrivateKeySize func(k hpke.KEMScheme) (n int)
//@ ensures n == KEMNsk(KEMIdOf(k))
//@ assigns none
//@ pure
//@ end

//@ ext (github.com/cisco/go-hpke.AEADScheme).KeySize func(k hpke.AEADScheme) (n int)
//@ ensures n == AEADNk(AEADIdOf(k))
//@ assigns none
//@ pure
//@ end

//@ ext (github.com/cisco/go-hpke.AEADScheme).NonceSize func(k hpke.AEADScheme) (n int)
//@ ensures n == AEADNn(AEADIdOf(k))
//@ assigns none
//@ pure
//@ end

// AssembleCipherSuite: known code points give a suite with exactly those schemes.
//
//@ spec opaque
func HPKESuiteKnown(kem hpke.KEMID, kdf hpke.KDFID, aead hpke.AEADID) bool { return false }

//@ lemma auto trusted
//@ ensures HPKESuiteKnown(hpke.DHKEM_X25519, hpke.KDF_HKDF_SHA256, hpke.AEAD_AESGCM128)
func axSuiteKnown() {}

//@ ext github.com/cisco/go-hpke.AssembleCipherSuite func(kem hpke.KEMID, kdf hpke.KDFID, aead hpke.AEADID) (s hpke.CipherSuite, err error)
//@ ensures (err == nil) == HPKESuiteKnown(kem, kdf, aead)
//@ ensures err == nil ==> s.KEM != nil && s.KDF != nil && s.AEAD != nil && KEMIdOf(s.KEM) == kem && KDFIdOf(s.KDF) == kdf && AEADIdOf(s.AEAD) == aead
//@ assigns none
//@ end

// Keys: a public key is its serialisation; a private key knows its public key.
//
//@ spec opaque
func KEMPubEnc(pk any) string { return "" }

//@ spec opaque
func KEMPubOfPriv(sk any) string { return "" }

//@ ext (github.com/cisco/go-hpke.KEMScheme).SerializePublicKey func(k hpke.KEMScheme, pk hpke.KEMPublicKey) (res []byte)
//@ requires pk != nil
//@ ensures string(res) == KEMPubEnc(pk) && fresh(res) && len(res) == KEMNpk(KEMIdOf(k))
//@ assigns none
//@ end

//@ spec opaque
func KEMPubValid(id hpke.KEMID, enc string) bool { return false }

//@ lemma auto trusted
//@ ensures KEMPubValid(id, enc) ==> len(enc) == KEMNpk(id)
func axKEMPubValidLen(id hpke.KEMID, enc string) {}

//@ ext (github.com/cisco/go-hpke.KEMScheme).DeserializePublicKey func(k hpke.KEMScheme, enc []byte) (pk hpke.KEMPublicKey, err error)
//@ ensures (err == nil) == KEMPubValid(KEMIdOf(k), string(enc))
//@ ensures err == nil ==> pk != nil && KEMPubEnc(pk) == string(enc) && len(enc) == KEMNpk(KEMIdOf(k))
//@ assigns none
//@ end

//@ spec opaque
func KEMDerivePub(id hpke.KEMID, ikm string) string { return "" }

//@ ext (github.com/cisco/go-hpke.KEMScheme).DeriveKeyPair func(k hpke.KEMScheme, ikm []byte) (sk hpke.KEMPrivateKey, pk hpke.KEMPublicKey, err error)
//@ ensures err == nil ==> sk != nil && pk != nil && KEMPubOfPriv(sk) == KEMDerivePub(KEMIdOf(k), string(ikm)) && KEMPubEnc(pk) == KEMPubOfPriv(sk)
//@ assigns none
//@ end

// Contexts. HPKECtx(recipient public key, enc, info, kem, kdf, aead): the key schedule's result, as one
// abstract value; both roles of an exchange obtain the same value.
//
//@ spec opaque
func HPKECtx(pkR, enc, info string, kem hpke.KEMID, kdf hpke.KDFID, aead hpke.AEADID) Mathint { return 0 }

//@ spec ghost
func RCtxKey(c *hpke.ReceiverContext) Mathint { return 0 }

//@ spec ghost
func RCtxSeq(c *hpke.ReceiverContext) int { return 0 }

//@ spec ghost
func SCtxKey(c *hpke.SenderContext) Mathint { return 0 }

//@ spec ghost
func SCtxSeq(c *hpke.SenderContext) int { return 0 }

//@ ext github.com/cisco/go-hpke.SetupBaseR func(suite hpke.CipherSuite, skR hpke.KEMPrivateKey, enc []byte, info []byte) (c *hpke.ReceiverContext, err error)
//@ requires suite.KEM != nil && suite.KDF != nil && suite.AEAD != nil
//@ ensures err == nil ==> c != nil && fresh(c) && RCtxSeq(c) == 0 && len(enc) == KEMNpk(KEMIdOf(suite.KEM))
//@ ensures err == nil ==> RCtxKey(c) == HPKECtx(KEMPubOfPriv(skR), string(enc), string(info), KEMIdOf(suite.KEM), KDFIdOf(suite.KDF), AEADIdOf(suite.AEAD))
//@ ensures err != nil ==> c == nil
//@ assigns none
//@ end

//@ ext github.com/cisco/go-hpke.SetupBaseS func(suite hpke.CipherSuite, rnd io.Reader, pkR hpke.KEMPublicKey, info []byte) (enc []byte, c *hpke.SenderContext, err error)
//@ requires suite.KEM != nil && suite.KDF != nil && suite.AEAD != nil
//@ ensures err == nil ==> c != nil && fresh(c) && fresh(enc) && SCtxSeq(c) == 0 && len(enc) == KEMNpk(KEMIdOf(suite.KEM)) && cap(enc) == len(enc)
//@ ensures err == nil ==> SCtxKey(c) == HPKECtx(KEMPubEnc(pkR), string(enc), string(info), KEMIdOf(suite.KEM), KDFIdOf(suite.KDF), AEADIdOf(suite.AEAD))
//@ ensures err != nil ==> c == nil && enc == nil
//@ assigns none
//@ end

// HPKEOpenOK(key, seq, aad, ct): ct is a valid sealing under the context for this sequence number and
// associated data; HPKEOpen: its plaintext. HPKESeal is the sealing function.
//
//@ spec opaque
func HPKEOpenOK(key Mathint, seq int, aad, ct string) bool { return false }

//@ spec opaque
func HPKEOpen(key Mathint, seq int, aad, ct string) string { return "" }

//@ spec opaque
func HPKESeal(key Mathint, seq int, aad, pt string) string { return "" }

//@ lemma auto trusted
//@ ensures HPKEOpenOK(key, seq, aad, HPKESeal(key, seq, aad, pt)) && HPKEOpen(key, seq, aad, HPKESeal(key, seq, aad, pt)) == pt
func axHPKESealOpen(key Mathint, seq int, aad, pt string) {}

// The ciphertext expansion is a constant of the AEAD.
//
//@ spec opaque
func AEADOverhead(aead hpke.AEADID) int { return 0 }

//@ lemma auto trusted
//@ ensures AEADOverhead(aead) >= 0 && AEADOverhead(aead) <= 64 && len(HPKESeal(HPKECtx(pkR, enc, info, kem, kdf, aead), seq, aad, pt)) == len(pt)+AEADOverhead(aead)
func axHPKESealLen(pkR, enc, info string, kem hpke.KEMID, kdf hpke.KDFID, aead hpke.AEADID, seq int, aad, pt string) {}

//@ lemma auto trusted
//@ ensures HPKEOpenOK(key, seq, aad, ct) ==> len(HPKEOpen(key, seq, aad, ct)) <= len(ct)
func axHPKEOpenLen(key Mathint, seq int, aad, ct string) {}

//@ ext (*github.com/cisco/go-hpke.ReceiverContext).Open func(c *hpke.ReceiverContext, aad []byte, ct []byte) (pt []byte, err error)
//@ requires c != nil
//@ ensures (err == nil) == HPKEOpenOK(old(RCtxKey(c)), old(RCtxSeq(c)), string(aad), string(ct))
//@ ensures err == nil ==> string(pt) == HPKEOpen(old(RCtxKey(c)), old(RCtxSeq(c)), string(aad), string(ct)) && fresh(pt) && RCtxSeq(c) == old(RCtxSeq(c))+1
//@ ensures err != nil ==> pt == nil && RCtxSeq(c) == old(RCtxSeq(c))
//@ ensures RCtxKey(c) == old(RCtxKey(c))
//@ assigns ghost(RCtxSeq(c))
//@ end

//@ ext (*github.com/cisco/go-hpke.SenderContext).Seal func(c *hpke.SenderContext, aad []byte, pt []byte) (ct []byte)
//@ requires c != nil
//@ ensures string(ct) == HPKESeal(old(SCtxKey(c)), old(SCtxSeq(c)), string(aad), string(pt)) && fresh(ct) && SCtxSeq(c) == old(SCtxSeq(c))+1
//@ ensures SCtxKey(c) == old(SCtxKey(c))
//@ assigns ghost(SCtxSeq(c))
//@ end

//@ spec opaque
func HPKEExport(key Mathint, context string, l int) string { return "" }

//@ lemma auto trusted
//@ ensures l >= 0 ==> len(HPKEExport(key, context, l)) == l
func axHPKEExportLen(key Mathint, context string, l int) {}

// Export panics in the KDF for lengths beyond 255 hash blocks: a precondition.
//
//@ ext (*github.com/cisco/go-hpke.ReceiverContext).Export func(c *hpke.ReceiverContext, context []byte, l int) (res []byte)
//@ requires c != nil && l >= 0 && l <= 255*32
//@ ensures string(res) == HPKEExport(RCtxKey(c), string(context), l) && fresh(res)
//@ assigns none
//@ end

//@ ext (*github.com/cisco/go-hpke.SenderContext).Export func(c *hpke.SenderContext, context []byte, l int) (res []byte)
//@ requires c != nil && l >= 0 && l <= 255*32
//@ ensures string(res) == HPKEExport(SCtxKey(c), string(context), l) && fresh(res)
//@ assigns none
//@ end

// KDF (HKDF with the scheme's hash).
//
//@ spec opaque
func KDFExtract(id hpke.KDFID, salt, ikm string) string { return "" }

//@ spec opaque
func KDFExpand(id hpke.KDFID, prk, info string, l int) string { return "" }

//@ lemma auto trusted
//@ ensures l >= 0 ==> len(KDFExpand(id, prk, info, l)) == l
func axKDFExpandLen(id hpke.KDFID, prk, info string, l int) {}

//@ ext (github.com/cisco/go-hpke.KDFScheme).Extract func(k hpke.KDFScheme, salt []byte, ikm []byte) (prk []byte)
//@ ensures string(prk) == KDFExtract(KDFIdOf(k), string(salt), string(ikm)) && fresh(prk)
//@ assigns none
//@ end

//@ ext (github.com/cisco/go-hpke.KDFScheme).Expand func(k hpke.KDFScheme, prk []byte, info []byte, l int) (out []byte)
//@ requires l >= 0 && l <= 255*32
//@ ensures string(out) == KDFExpand(KDFIdOf(k), string(prk), string(info), l) && fresh(out)
//@ assigns none
//@ end

// AEAD objects (crypto/cipher.AEAD). Seal and Open panic on a nonce of the wrong length: a precondition.
//
//@ spec ghost
func AEADKey(c cipher.AEAD) string { return "" }

//@ spec ghost
func AEADAlg(c cipher.AEAD) hpke.AEADID { return 0 }

//@ ext (github.com/cisco/go-hpke.AEADScheme).New func(k hpke.AEADScheme, key []byte) (c cipher.AEAD, err error)
//@ ensures len(key) == AEADNk(AEADIdOf(k)) && AEADNk(AEADIdOf(k)) > 0 ==> err == nil
//@ ensures err == nil ==> c != nil && fresh(c) && AEADKey(c) == string(key) && AEADAlg(c) == AEADIdOf(k)
//@ ensures err != nil ==> c == nil
//@ assigns none
//@ end

//@ spec opaque
func AEADSealOf(alg hpke.AEADID, key, nonce, pt, ad string) string { return "" }

//@ spec opaque
func AEADOpenOK(alg hpke.AEADID, key, nonce, ct, ad string) bool { return false }

//@ spec opaque
func AEADOpenOf(alg hpke.AEADID, key, nonce, ct, ad string) string { return "" }

//@ lemma auto trusted
//@ ensures AEADOpenOK(alg, key, nonce, AEADSealOf(alg, key, nonce, pt, ad), ad) && AEADOpenOf(alg, key, nonce, AEADSealOf(alg, key, nonce, pt, ad), ad) == pt
func axAEADSealOpen(alg hpke.AEADID, key, nonce, pt, ad string) {}

//@ lemma auto trusted
//@ ensures len(AEADSealOf(alg, key, nonce, pt, ad)) <= len(pt)+64
func axAEADSealLen(alg hpke.AEADID, key, nonce, pt, ad string) {}

//@ lemma auto trusted
//@ ensures AEADOpenOK(alg, key, nonce, ct, ad) ==> len(AEADOpenOf(alg, key, nonce, ct, ad)) <= len(ct)
func axAEADOpenLen(alg hpke.AEADID, key, nonce, ct, ad string) {}

//@ ext (crypto/cipher.AEAD).Seal func(c cipher.AEAD, dst []byte, nonce []byte, plaintext []byte, additionalData []byte) (res []byte)
//@ requires c != nil && len(nonce) == AEADNn(AEADAlg(c)) && dst == nil
//@ ensures string(res) == AEADSealOf(AEADAlg(c), AEADKey(c), string(nonce), string(plaintext), string(additionalData)) && fresh(res)
//@ assigns none
//@ end

//@ ext (crypto/cipher.AEAD).Open func(c cipher.AEAD, dst []byte, nonce []byte, ciphertext []byte, additionalData []byte) (res []byte, err error)
//@ requires c != nil && len(nonce) == AEADNn(AEADAlg(c)) && dst == nil
//@ ensures (err == nil) == AEADOpenOK(AEADAlg(c), AEADKey(c), string(nonce), string(ciphertext), string(additionalData))
//@ ensures err == nil ==> string(res) == AEADOpenOf(AEADAlg(c), AEADKey(c), string(nonce), string(ciphertext), string(additionalData)) && fresh(res)
//@ ensures err != nil ==> res == nil
//@ assigns none
//@ end
