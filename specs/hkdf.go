//go:build verif

package vspec

import (
	"hash"
	"io"

	"golang.org/x/crypto/hkdf"
)

var _ = hkdf.New
var _ hash.Hash
var _ io.Reader

// The HKDF reader remembers its inputs (ghost state); the first ReadFull of n bytes returns HKDF(ikm, salt, info, n).

//@ spec ghost
func HKDFIkm(r any) string { return "" }

//@ spec ghost
func HKDFSalt(r any) string { return "" }

//@ spec ghost
func HKDFInfo(r any) string { return "" }

//@ spec ghost
func HKDFIs384(r any) bool { return false }

// HashCtor384: the hash constructor passed to hkdf.New is sha512.New384 (a property of the function value,
// established by the call site below through the Go-coded handler for hkdf.New).
