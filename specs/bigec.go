//go:build verif

package vspec

import (
	"crypto/elliptic"
	"encoding/hex"
	"io"
	"math/big"
)

var _ = hex.EncodeToString
var _ io.Reader

// ===========================================================================
// math/big: the mathematical value of a *big.Int is ghost state.

//@ spec ghost
func BigVal(x *big.Int) Mathint { return 0 }

// BEFixed(v, n): the n-byte big-endian encoding of v (0 <= v < 256^n); BEMin(v): the minimal one.
//
//@ spec opaque
func BEFixed(v Mathint, n int) string { return "" }

//@ spec opaque
func BEMin(v Mathint) string { return "" }

// BitLenOf(v): number of bits of |v|.
//
//@ spec opaque
func BitLenOf(v Mathint) int { return 0 }

//@ lemma auto trusted
//@ ensures BE(s) >= 0
func axBENonNeg(s string) {}

//@ lemma auto trusted
//@ ensures n >= 0 ==> len(BEFixed(v, n)) == n
//@ ensures v >= 0 && BitLenOf(v) <= 8*n ==> BE(BEFixed(v, n)) == v
func axBEFixed(v Mathint, n int) {}

//@ lemma auto trusted
//@ ensures BitLenOf(v) >= 0
//@ ensures v >= 0 ==> 8*len(BEMin(v)) >= BitLenOf(v) && len(BEMin(v)) == (BitLenOf(v)+7)/8 && BE(BEMin(v)) == v
func axBEMin(v Mathint) {}

//@ lemma auto trusted
//@ ensures BitLenOf(BE(s)) <= 8*len(s)
func axBEBits(s string) {}

//@ ext (*math/big.Int).SetBytes func(z *big.Int, buf []byte) (r *big.Int)
//@ requires z != nil
//@ ensures r == z && BigVal(z) == BE(string(buf))
//@ assigns ghost(BigVal(z))
//@ end

//@ ext (*math/big.Int).Set func(z *big.Int, x *big.Int) (r *big.Int)
//@ requires z != nil && x != nil
//@ ensures r == z && BigVal(z) == old(BigVal(x))
//@ assigns ghost(BigVal(z))
//@ end

//@ ext (*math/big.Int).SetInt64 func(z *big.Int, x int64) (r *big.Int)
//@ requires z != nil
//@ ensures r == z && BigVal(z) == Mathint(x)
//@ assigns ghost(BigVal(z))
//@ end

//@ ext math/big.NewInt func(x int64) (r *big.Int)
//@ ensures r != nil && fresh(r) && BigVal(r) == Mathint(x)
//@ assigns none
//@ end

//@ ext (*math/big.Int).Bytes func(x *big.Int) (res []byte)
//@ requires x != nil
//@ ensures BigVal(x) >= 0 ==> string(res) == BEMin(BigVal(x))
//@ ensures BigVal(x) < 0 ==> string(res) == BEMin(0-BigVal(x))
//@ ensures fresh(res)
//@ assigns none
//@ end

// FillBytes panics when the buffer is too small.
//
//@ ext (*math/big.Int).FillBytes func(x *big.Int, buf []byte) (res []byte)
//@ requires x != nil
//@ requires BitLenOf(BigVal(x)) <= 8*len(buf)
//@ ensures sameslice(res, buf) && (BigVal(x) >= 0 ==> string(buf) == BEFixed(BigVal(x), len(buf)))
//@ assigns buf[:]
//@ end

//@ ext (*math/big.Int).BitLen func(x *big.Int) (n int)
//@ requires x != nil
//@ ensures n == BitLenOf(BigVal(x)) && n >= 0
//@ assigns none
//@ pure
//@ end

//@ ext (*math/big.Int).Sign func(x *big.Int) (n int)
//@ requires x != nil
//@ ensures (BigVal(x) < 0 ==> n == -1) && (BigVal(x) == 0 ==> n == 0) && (BigVal(x) > 0 ==> n == 1)
//@ assigns none
//@ pure
//@ end

//@ ext (*math/big.Int).Cmp func(x *big.Int, y *big.Int) (n int)
//@ requires x != nil && y != nil
//@ ensures (BigVal(x) < BigVal(y) ==> n == -1) && (BigVal(x) == BigVal(y) ==> n == 0) && (BigVal(x) > BigVal(y) ==> n == 1)
//@ assigns none
//@ pure
//@ end

//@ ext (*math/big.Int).Add func(z *big.Int, x *big.Int, y *big.Int) (r *big.Int)
//@ requires z != nil && x != nil && y != nil
//@ ensures r == z && BigVal(z) == old(BigVal(x))+old(BigVal(y))
//@ assigns ghost(BigVal(z))
//@ end

//@ ext (*math/big.Int).Sub func(z *big.Int, x *big.Int, y *big.Int) (r *big.Int)
//@ requires z != nil && x != nil && y != nil
//@ ensures r == z && BigVal(z) == old(BigVal(x))-old(BigVal(y))
//@ assigns ghost(BigVal(z))
//@ end

//@ ext (*math/big.Int).Mul func(z *big.Int, x *big.Int, y *big.Int) (r *big.Int)
//@ requires z != nil && x != nil && y != nil
//@ ensures r == z && BigVal(z) == old(BigVal(x))*old(BigVal(y))
//@ assigns ghost(BigVal(z))
//@ end

// Mod: Euclidean modulus; panics for a zero modulus.
//
//@ ext (*math/big.Int).Mod func(z *big.Int, x *big.Int, y *big.Int) (r *big.Int)
//@ requires z != nil && x != nil && y != nil
//@ requires BigVal(y) != 0
//@ ensures r == z && (old(BigVal(y)) > 0 ==> BigVal(z) == old(BigVal(x))%old(BigVal(y)))
//@ assigns ghost(BigVal(z))
//@ end

// ModExp / ModInv: opaque arithmetic.
//
//@ spec opaque
func ModExp(x, e, m Mathint) Mathint { return 0 }

//@ spec opaque
func ModInv(x, m Mathint) Mathint { return 0 }

//@ spec opaque
func Invertible(x, m Mathint) bool { return false }

//@ lemma auto trusted
//@ ensures m > 1 && Invertible(x, m) ==> ModInv(x, m) > 0 && ModInv(x, m) < m && (ModInv(x, m)*x)%m == 1
func axModInv(x, m Mathint) {}

//@ ext (*math/big.Int).Exp func(z *big.Int, x *big.Int, y *big.Int, m *big.Int) (r *big.Int)
//@ requires z != nil && x != nil && y != nil && m != nil
//@ ensures r == z && BigVal(z) == ModExp(old(BigVal(x)), old(BigVal(y)), old(BigVal(m)))
//@ assigns ghost(BigVal(z))
//@ end

// ModInverse returns nil (and leaves z unspecified) when no inverse exists.
//
//@ ext (*math/big.Int).ModInverse func(z *big.Int, g *big.Int, n *big.Int) (r *big.Int)
//@ requires z != nil && g != nil && n != nil
//@ ensures (r != nil) == Invertible(old(BigVal(g)), old(BigVal(n)))
//@ ensures r != nil ==> r == z && BigVal(z) == ModInv(old(BigVal(g)), old(BigVal(n)))
//@ assigns ghost(BigVal(z))
//@ end

//@ spec opaque
func RshOf(x Mathint, n int) Mathint { return 0 }

//@ ext (*math/big.Int).Rsh func(z *big.Int, x *big.Int, n uint) (r *big.Int)
//@ requires z != nil && x != nil
//@ ensures r == z && BigVal(z) == RshOf(old(BigVal(x)), int(n))
//@ assigns ghost(BigVal(z))
//@ end

// ===========================================================================
// crypto/elliptic: prime-order short Weierstrass curves over coordinates (x, y); the point at
// infinity is (0, 0) as in the standard library.

//@ spec opaque
func ECOrder(c elliptic.Curve) Mathint { return 0 }

//@ spec opaque
func ECBits(c elliptic.Curve) int { return 0 }

//@ spec opaque
func ECName(c elliptic.Curve) string { return "" }

//@ spec opaque
func ECOnCurve(c elliptic.Curve, x, y Mathint) bool { return false }

//@ spec opaque
func ECMulX(c elliptic.Curve, k, x, y Mathint) Mathint { return 0 }

//@ spec opaque
func ECMulY(c elliptic.Curve, k, x, y Mathint) Mathint { return 0 }

//@ spec opaque
func ECBaseX(c elliptic.Curve, k Mathint) Mathint { return 0 }

//@ spec opaque
func ECBaseY(c elliptic.Curve, k Mathint) Mathint { return 0 }

//@ spec opaque
func ECAddX(c elliptic.Curve, x1, y1, x2, y2 Mathint) Mathint { return 0 }

//@ spec opaque
func ECAddY(c elliptic.Curve, x1, y1, x2, y2 Mathint) Mathint { return 0 }

// ECEnc: compressed SEC 1 encoding; ECDecOK / ECDecX / ECDecY: decoding (validates curve membership).
//
//@ spec opaque
func ECEnc(c elliptic.Curve, x, y Mathint) string { return "" }

//@ spec opaque
func ECDecOK(c elliptic.Curve, enc string) bool { return false }

//@ spec opaque
func ECDecX(c elliptic.Curve, enc string) Mathint { return 0 }

//@ spec opaque
func ECDecY(c elliptic.Curve, enc string) Mathint { return 0 }

// Group facts assumed (prime order N, cofactor 1): closure, scalar multiplication composes
// multiplicatively modulo N, 1 is neutral, the base-point multiple is a curve point, and
// encode/decode are inverse on valid points.
//
//@ lemma auto trusted
//@ ensures ECOrder(c) > 1
func axECOrder(c elliptic.Curve) {}

//@ lemma auto trusted
//@ ensures ECOnCurve(c, x, y) ==> ECOnCurve(c, ECMulX(c, k, x, y), ECMulY(c, k, x, y))
//@ ensures ECOnCurve(c, x, y) ==> ECMulX(c, 1, x, y) == x && ECMulY(c, 1, x, y) == y
//@ ensures ECOnCurve(c, x, y) && k >= 0 ==> ECMulX(c, k, x, y) == ECMulX(c, k%ECOrder(c), x, y) && ECMulY(c, k, x, y) == ECMulY(c, k%ECOrder(c), x, y)
func axECMul(c elliptic.Curve, k, x, y Mathint) {}

//@ lemma auto trusted
//@ ensures ECOnCurve(c, x, y) && a >= 0 && b >= 0 ==> ECMulX(c, a, ECMulX(c, b, x, y), ECMulY(c, b, x, y)) == ECMulX(c, (a*b)%ECOrder(c), x, y)
//@ ensures ECOnCurve(c, x, y) && a >= 0 && b >= 0 ==> ECMulY(c, a, ECMulX(c, b, x, y), ECMulY(c, b, x, y)) == ECMulY(c, (a*b)%ECOrder(c), x, y)
func axECMulMul(c elliptic.Curve, a, b, x, y Mathint) {}

//@ lemma auto trusted
//@ ensures ECOnCurve(c, ECBaseX(c, k), ECBaseY(c, k))
func axECBase(c elliptic.Curve, k Mathint) {}

//@ lemma auto trusted
//@ ensures ECOnCurve(c, x, y) ==> ECDecOK(c, ECEnc(c, x, y)) && ECDecX(c, ECEnc(c, x, y)) == x && ECDecY(c, ECEnc(c, x, y)) == y && len(ECEnc(c, x, y)) == 1+(ECBits(c)+7)/8
func axECEncDec(c elliptic.Curve, x, y Mathint) {}

//@ lemma auto trusted
//@ ensures ECDecOK(c, enc) ==> ECOnCurve(c, ECDecX(c, enc), ECDecY(c, enc)) && ECEnc(c, ECDecX(c, enc), ECDecY(c, enc)) == enc
func axECDecEnc(c elliptic.Curve, enc string) {}

//@ ext crypto/elliptic.P384 func() (c elliptic.Curve)
//@ ensures c == CurveP384() && c != nil
//@ assigns none
//@ pure
//@ end

//@ spec opaque
func CurveP384() elliptic.Curve { return elliptic.P384() }

//@ lemma auto trusted
//@ ensures CurveP384() != nil && ECBits(CurveP384()) == 384 && ECName(CurveP384()) == "P-384"
func axP384() {}

// Params() returns the (immutable) parameter object of the curve.
//
//@ ext (crypto/elliptic.Curve).Params func(c elliptic.Curve) (p *elliptic.CurveParams)
//@ requires c != nil
//@ ensures p != nil && p.N != nil && BigVal(p.N) == ECOrder(c) && p.BitSize == ECBits(c) && p.Name == ECName(c) && p.BitSize > 0 && p.BitSize <= 1024
//@ ensures BitLenOf(ECOrder(c)) == ECBits(c)
//@ ensures PreExisting(p) && PreExisting(p.N)
//@ assigns none
//@ pure
//@ end

//@ ext (*crypto/elliptic.CurveParams).Params func(p *elliptic.CurveParams) (q *elliptic.CurveParams)
//@ ensures q == p
//@ assigns none
//@ pure
//@ end

// UnmarshalCompressed returns (nil, nil) for malformed encodings and for points not on the curve.
//
//@ ext crypto/elliptic.UnmarshalCompressed func(c elliptic.Curve, data []byte) (x *big.Int, y *big.Int)
//@ requires c != nil
//@ ensures (x != nil) == ECDecOK(c, string(data)) && (y != nil) == (x != nil)
//@ ensures x != nil ==> fresh(x) && fresh(y) && x != y && BigVal(x) == ECDecX(c, string(data)) && BigVal(y) == ECDecY(c, string(data))
//@ assigns none
//@ end

// MarshalCompressed, ScalarMult and Add panic for points that are not on the curve (Go >= 1.19).
//
//@ ext crypto/elliptic.MarshalCompressed func(c elliptic.Curve, x *big.Int, y *big.Int) (res []byte)
//@ requires c != nil && x != nil && y != nil
//@ requires ECOnCurve(c, BigVal(x), BigVal(y))
//@ ensures string(res) == ECEnc(c, BigVal(x), BigVal(y)) && fresh(res)
//@ assigns none
//@ end

//@ ext (crypto/elliptic.Curve).ScalarMult func(c elliptic.Curve, x1 *big.Int, y1 *big.Int, k []byte) (x *big.Int, y *big.Int)
//@ requires c != nil && x1 != nil && y1 != nil
//@ requires ECOnCurve(c, BigVal(x1), BigVal(y1))
//@ ensures x != nil && y != nil && fresh(x) && fresh(y) && x != y
//@ ensures BigVal(x) == ECMulX(c, BE(string(k)), BigVal(x1), BigVal(y1)) && BigVal(y) == ECMulY(c, BE(string(k)), BigVal(x1), BigVal(y1))
//@ assigns none
//@ end

//@ ext (crypto/elliptic.Curve).ScalarBaseMult func(c elliptic.Curve, k []byte) (x *big.Int, y *big.Int)
//@ requires c != nil
//@ ensures x != nil && y != nil && fresh(x) && fresh(y) && x != y
//@ ensures BigVal(x) == ECBaseX(c, BE(string(k))) && BigVal(y) == ECBaseY(c, BE(string(k)))
//@ assigns none
//@ end

//@ ext (crypto/elliptic.Curve).Add func(c elliptic.Curve, x1 *big.Int, y1 *big.Int, x2 *big.Int, y2 *big.Int) (x *big.Int, y *big.Int)
//@ requires c != nil && x1 != nil && y1 != nil && x2 != nil && y2 != nil
//@ requires ECOnCurve(c, BigVal(x1), BigVal(y1)) && ECOnCurve(c, BigVal(x2), BigVal(y2))
//@ ensures x != nil && y != nil && fresh(x) && fresh(y) && x != y
//@ ensures BigVal(x) == ECAddX(c, BigVal(x1), BigVal(y1), BigVal(x2), BigVal(y2)) && BigVal(y) == ECAddY(c, BigVal(x1), BigVal(y1), BigVal(x2), BigVal(y2))
//@ assigns none
//@ end

// ===========================================================================
// small standard-library functions

// HexEnc: lower-case hexadecimal encoding (injective, twice as long).
//
//@ spec opaque
func HexEnc(s string) string { return hex.EncodeToString([]byte(s)) }

//@ spec opaque
func HexDec(s string) string { b, _ := hex.DecodeString(s); return string(b) }

//@ lemma auto trusted
//@ ensures len(HexEnc(s)) == 2*len(s) && HexDec(HexEnc(s)) == s
func axHex(s string) {}

//@ ext encoding/hex.EncodeToString func(src []byte) (res string)
//@ ensures res == HexEnc(string(src))
//@ assigns none
//@ end

// io.ReadFull either fills the buffer or reports an error (the reader's failures are not modelled further).
//
//@ ext io.ReadFull func(r io.Reader, buf []byte) (n int, err error)
//@ requires r != nil
//@ ensures HKDFIs384(r) && len(buf) <= 255*48 ==> err == nil && string(buf) == HKDFSHA384(HKDFIkm(r), HKDFSalt(r), HKDFInfo(r), len(buf))
//@ ensures err == nil ==> n == len(buf)
//@ ensures err != nil ==> n < len(buf)
//@ ensures 0 <= n && n <= len(buf)
//@ assigns buf[:]
//@ end

//@ ext (io.Reader).Read func(r io.Reader, p []byte) (n int, err error)
//@ requires r != nil
//@ ensures 0 <= n && n <= len(p)
//@ assigns p[:]
//@ end

//@ ext crypto/rand.Read func(b []byte) (n int, err error)
//@ ensures err == nil ==> n == len(b)
//@ ensures err != nil ==> EntropyFailed()
//@ ensures 0 <= n && n <= len(b)
//@ assigns b[:]
//@ end

// The group order is prime: every residue 0 < x < N is invertible.
//
//@ lemma auto trusted
//@ ensures x > 0 && x < ECOrder(c) ==> Invertible(x, ECOrder(c))
func axECOrderPrime(c elliptic.Curve, x Mathint) {}

// ===========================================================================
// HKDF (golang.org/x/crypto/hkdf): the reader yields the output keying material of the given inputs.

//@ spec opaque
func HKDFSHA384(ikm, salt, info string, n int) string { return "" }

//@ lemma auto trusted
//@ ensures n >= 0 && n <= 255*48 ==> len(HKDFSHA384(ikm, salt, info, n)) == n
func axHKDFLen(ikm, salt, info string, n int) {}

// The minimal big-endian encoding is the fixed-width one of ceil(bits/8) bytes.
//
//@ lemma auto trusted
//@ ensures v >= 0 && n == (BitLenOf(v)+7)/8 ==> BEFixed(v, n) == BEMin(v)
func axBEFixedMin(v Mathint, n int) {}

// The order of P-384 has 384 bits.
//
//@ lemma auto trusted
//@ ensures v >= 0 && v < ECOrder(CurveP384()) ==> BitLenOf(v) <= 384
func axP384OrderBits(v Mathint) {}

// Multiples of base-point multiples (same group facts as axECMulMul, for points given as k*G). Not a global
// axiom (together with axECMulMul it sends the solvers into matching loops): a lemma that needs the fact
// calls AxECMulBase for the scalars at hand.
//
//@ lemma trusted
//@ ensures a >= 0 && b >= 0 ==> ECMulX(c, a, ECBaseX(c, b), ECBaseY(c, b)) == ECBaseX(c, (a*b)%ECOrder(c)) && ECMulY(c, a, ECBaseX(c, b), ECBaseY(c, b)) == ECBaseY(c, (a*b)%ECOrder(c))
func AxECMulBase(c elliptic.Curve, a, b Mathint) {}

// Modular arithmetic facts about products, which the verifier keeps uninterpreted (ASSUMED: elementary number
// theory; called explicitly by the lemmas that need them).
//
//@ lemma trusted
//@ ensures m > 1 && Invertible(b, m) && a >= 0 ==> (((a*b)%m)*ModInv(b, m))%m == a%m
func AxModCancel(a, b, m Mathint) {}

//@ lemma trusted
//@ ensures m > 0 && a >= 0 && b >= 0 && c >= 0 ==> (((a*b)%m)*c)%m == (((a*c)%m)*b)%m
func AxModMulSwap(a, b, c, m Mathint) {}
